"""C18 -- pickle round trip of Sourcefile / Module / Subroutine preserves code, equality, scoping and types."""
# pylint: disable=import-outside-toplevel,broad-except
import pickle
import re
import shutil
import traceback

from vlib import corpus
from vlib import unitsnap as us
from vlib.core import sighash, CaseTimeout
from vlib.fgenlab import ProgGen
from vlib.hostilegen import HostileGen, pick_flags

PID = 'C18'
LEVEL = 'exploration'
TECHNIQUE = 'round-trip monitor: pickle.loads(pickle.dumps(unit)) observed against the original (code, ==, scopes, types, links)'
LEVEL_TEXT = ('Generated and repository program units (and scheduler-enriched units whose calls link to procedures) are pickled and '
              'unpickled with the real __getstate__/__setstate__ code; the copy must generate the same code, compare == to the '
              'original, every typed symbol that was attached to a scope inside the pickled unit must be attached to the '
              'corresponding scope of the unpickled unit with an equal type dump, symbol tables must be equal, call links must '
              'survive, a second round trip must be stable and the original must be unchanged. Contained routines of the copy '
              'must be chained (scope and symbol table) to the unpickled enclosing unit and resolve host-associated names '
              '(get_type, lookup, fresh Variable(name, scope=routine)) as the original does.')
LEVEL_NOTE = ('Sampling, not exhaustive. Equality of types is judged on a canonical dump of SymbolAttributes (dtype, kind, shape, '
              'intent, links by name); object identity of linked procedures is not required, only that a link exists and has the '
              'same name. Cast expressions (REAL(x, kind)) are confined to a slice because unpickling them raises (known finding).')
RULE = ('Case = one FP-parsed source (45 % fgenlab modules, 35 % hostilegen files, 8 % repository sources, 12 % a two-file project '
        'parsed and enriched by the real Scheduler); targets: the Sourcefile, every Module, up to 4 routines (module procedures, '
        'free routines, internal procedures); each target is round-tripped (twice when it contains no Module or in the repickle slice). '
        'Constructs that hit known pickling defects (casts, internal procedures, INTERFACE bodies, derived types, keyword '
        'arguments of intrinsics, STOP, enriched imports) are confined to one slice each (5-9 %). Non-trivial = >= 2 targets round-tripped and '
        '>= 20 symbols compared; distinct = hash of the source text.')
CASES = {'quick': 360, 'thorough': 4500}
THOROUGH_VALIDATED = True   # full thorough tier ran to completion with exit 0 on the unchanged tree
MIN_NONTRIVIAL = {'quick': 180, 'thorough': 2200}
ANCHORS = ['loki/subroutine.py', 'loki/module.py', 'loki/sourcefile.py', 'loki/types/symbol_table.py',
           'loki/ir/nodes/abstract_nodes.py', 'loki/program_unit.py']
REQUIRED_REACH = ['__getstate__', '__setstate__']
REQUIRED_COUNTERS = {'round_trips': 100, 'symbols_compared': 3000, 'eq_checks': 100, 'enriched_calls_checked': 3,
                     'host_lookups': 300}
ASSUMPTIONS = ['canonical SymbolAttributes dumps decide type equality',
               'a pickled routine loses its enclosing module (documented: _parent is not pickled); only symbols whose scope lies '
               'inside the pickled unit are required to be re-attached']
BUDGET_S = {'quick': 300, 'thorough': 2400}
CASE_TIMEOUT_S = 150

# Features that hit known pickling defects are confined to slices (one per case), so that each is reported once and
# cannot mask other violations: casts (Cast.__setstate__), internal procedures (member parent lost), INTERFACE bodies and
# type-bound calls (procedure links dropped), derived types imported by name (DerivedTypeSymbol unpickling), intrinsic
# calls with keyword arguments (InlineCall.__setstate__), second round trip of modules (Module._ast).
SLICES = [('base', 0.36), ('casts', 0.08), ('internal', 0.09), ('interfaces', 0.08), ('typedefs', 0.09),
          ('inline_kwargs', 0.06), ('repickle_module', 0.07), ('enriched_imports', 0.08), ('stop', 0.05), ('all', 0.05)]


def pick_slice(rng):
    r = rng.random()
    acc = 0.0
    for name, p in SLICES:
        acc += p
        if r < acc:
            return name
    return 'base'


def uncast(text):
    """Replace REAL(<int expr>, <kind>) casts by mixed-mode arithmetic (1.0_kind*(<expr>)); declarations untouched."""
    out = []
    i = 0
    low = text.lower()
    while True:
        j = low.find('real(', i)
        if j < 0:
            out.append(text[i:])
            break
        if j > 0 and (low[j - 1].isalnum() or low[j - 1] == '_'):
            out.append(text[i:j + 5])
            i = j + 5
            continue
        depth, k = 1, j + 5
        parts, start = [], j + 5
        while k < len(text) and depth:
            c = text[k]
            if c == '(':
                depth += 1
            elif c == ')':
                depth -= 1
            elif c == ',' and depth == 1:
                parts.append(text[start:k])
                start = k + 1
            k += 1
        parts.append(text[start:k - 1])
        if len(parts) == 2 and not parts[0].strip().lower().startswith('kind') and '\n' not in text[j:k]:
            out.append(text[i:j])
            out.append(f'(1.0_{parts[1].strip()}*({uncast(parts[0])}))')
            i = k
        else:
            out.append(text[i:j + 5])
            i = j + 5
    return ''.join(out)


def make_source(rng, ctx, idx):
    r = rng.random()
    sl = pick_slice(rng)
    on = lambda name: sl in (name, 'all')      # noqa: E731
    if r < 0.57:
        flags = {'derived': rng.random() < 0.6, 'mixed_case': rng.random() < 0.2, 'max_stmts': rng.choice([5, 8, 12]),
                 'io_in_kernel': rng.random() < 0.15, 'kinds_module': rng.random() < 0.7,
                 'optional_args': rng.random() < 0.2, 'pragmas': rng.random() < 0.2, 'strings': rng.random() < 0.2,
                 'internal': on('internal')}
        case = ProgGen(rng, flags).generate()
        text = case.units if on('casts') else uncast(case.units)
        kind = 'scheduler' if r >= 0.45 else 'fgenlab'
        return kind, text, sl
    if r < 0.92:
        flags = pick_flags(rng, risky_prob=0.0)
        flags['size'] = rng.choice([1, 1, 2])
        flags['line_budget'] = 150
        flags['internal'] = on('internal')
        flags['interfaces'] = on('interfaces')
        flags['interface_in_internal'] = on('interfaces') and on('internal')
        flags['inline_kwargs'] = on('inline_kwargs')
        flags['stop_stmt'] = on('stop')
        if on('stop'):
            flags['kw_comments'] = True
        if not on('typedefs'):
            flags.update(no_typedefs=True, typebound=False, extends=False, assoc=False)
        flags['imports_params_only'] = not (on('enriched_imports') or on('typedefs'))
        case = HostileGen(rng, flags).generate()
        return 'hostile', case.text, sl
    f = rng.choice(corpus.list_files())
    return 'corpus', corpus.read(f), 'corpus'


def strip_intrinsics(snap):
    """Drop lookup caches from the table dumps: intrinsic procedures and derived-type member entries ('a%b'), both of
    which Loki creates lazily on look-up."""
    for _, d in snap['tables'].items():
        for k in [k for k, v in d.items()
                  if '%' in k or ('intrinsic=True' in v and v.startswith('<dtype=ProcedureType('))]:
            del d[k]
    return snap


def snapshot(obj):
    return strip_intrinsics(us.snapshot(obj))


def symbol_pairs(orig, copy):
    """Typed symbols of both objects in traversal order."""
    a = us.typed_symbols(orig)
    b = us.typed_symbols(copy)
    return a, b


def call_links(obj):
    """[(unit path, call name, kind of link, linked routine name, path of linked routine, path of the scope the call
    name is attached to)] with kind in own / own-iface / ext / none."""
    from loki import FindNodes
    from loki.ir import nodes as ir
    from loki.program_unit import ProgramUnit
    from loki.types import BasicType
    tree = us.scope_tree(obj)
    own = us.own_map(tree)
    out = []
    for p, s in tree:
        if isinstance(s, ProgramUnit) and getattr(s, 'body', None) is not None:
            for c in FindNodes(ir.CallStatement).visit(s.body):
                rt = c.routine
                sp = own.get(id(getattr(c.name, 'scope', None)), '')
                if rt is BasicType.DEFERRED or rt is None:
                    out.append((p, str(c.name).lower(), 'none', '', '', sp))
                elif id(rt) in own:
                    out.append((p, str(c.name).lower(), 'own-iface' if '/Interface:' in own[id(rt)] else 'own',
                                str(rt.name).lower(), own[id(rt)], sp))
                else:
                    out.append((p, str(c.name).lower(), 'ext', str(rt.name).lower(), '', sp))
    return out


_LINK = re.compile(r'proc=(own|ext|none)(:[^;,)>]*)?')


def norm_links(dump, how):
    """
    Normalise the rendering of procedure links in an attribute dump.
    how='kind'  : proc=own:<path> -> proc=own | proc=own-iface ; ext / none -> proc=x  (links to procedures outside the
                  pickled unit are dropped by design: ProcedureType.__getstate__ ignores _procedure)
    how='drop'  : every link -> proc=x (to decide whether two dumps differ in links only)
    Type-definition links (typedef=...) and module links are rendered without path.
    """
    if dump is None:
        return None

    imported = 'imported=True' in dump      # links of imported symbols lead out of the unit that declares them

    def sub(m):
        if how == 'drop' or m.group(1) != 'own' or imported:
            return 'proc=x'
        return 'proc=own-iface' if '/Interface:' in (m.group(2) or '') else 'proc=own'
    d = _LINK.sub(sub, dump)
    if how == 'drop' or imported:
        d = re.sub(r'fn=(True|False); ', '', d)      # is_function / return type are derived from the link
        d = re.sub(r'; returns=[^;)>]*', '', d)
    return re.sub(r'(typedef=|<)(own|ext):[^;,)>]*', r'\1\2', d)


def classify_link_loss(name, raw_before, table_path):
    """Kind of a lost procedure link: the raw dump names the linked routine as proc=own:<path>."""
    m = re.search(r'proc=own:([^;,)>]*)', raw_before or '')
    linked = m.group(1) if m else ''
    if '/Interface:' in linked:
        return 'interface-body'
    if '%' in name:
        return 'type-bound'
    if linked and linked.rsplit('/', 1)[0] == table_path:
        return 'contained-registration'      # the entry that __setstate__ promises to restore
    return 'enriched-entry'                  # a copy of the entry in another scope (enrich()), link dropped by design


def round_trip(obj, label, res, witness, second):
    """All checks for one target.  Returns number of symbols compared."""
    cnt = res['counters']

    def viol(key, msg, **extra):
        res['violations'].append({'key': key, 'msg': f'{label}: {msg}', 'witness': dict(witness, target=label, **extra)})

    kind = type(obj).__name__
    try:
        before_raw = us.snapshot(obj)
        links_before = call_links(obj)
    except CaseTimeout:
        raise
    except Exception:
        cnt['snapshot_exceptions'] = cnt.get('snapshot_exceptions', 0) + 1
        return 0
    try:
        data = pickle.dumps(obj)
        copy = pickle.loads(data)
    except CaseTimeout:
        raise
    except Exception as e:
        tb = traceback.format_exc()
        msg = str(e)
        m = re.search(r"property '(\w+)' of '(\w+)' object has no setter", msg)
        if m:
            what = f'{m.group(2)}-setstate'
        elif 'Missing type information for variable symbol' in msg:
            what = 'missing-type-information'
        elif 'dictionary update sequence' in msg and 'kw_parameters' in tb:
            what = 'call-kwargs-setstate'
        elif 'fparser/two/utils.py' in tb and '__getnewargs__' in tb:
            what = 'fparser-node-in-ir'
        else:
            what = type(e).__name__
        viol(f'pickle:exception:{what}', f'pickle round trip raised {type(e).__name__}: {msg[:200]}', traceback=tb[-1200:])
        cnt['pickle_exceptions'] = cnt.get('pickle_exceptions', 0) + 1
        return 0
    cnt['round_trips'] = cnt.get('round_trips', 0) + 1
    # ---- equality as the statement asks, before anything else touches either object
    cnt['eq_checks'] = cnt.get('eq_checks', 0) + 1
    try:
        eq = (copy == obj)
    except CaseTimeout:
        raise
    except Exception as e:
        eq = None
        viol(f'pickle:eq-raises:{type(e).__name__}', f'copy == original raised {e}')
    # ---- the original is unchanged by pickling
    before = strip_intrinsics(before_raw)
    try:
        after = snapshot(obj)
        if after != before:
            viol(f'pickle:changes-original:{"+".join(us.diff_kinds(before, after))}',
                 f'pickling changed the original: {us.snap_diff(before, after)[:3]}')
    except CaseTimeout:
        raise
    except Exception as e:
        viol(f'pickle:original-broken:{type(e).__name__}', f'original cannot be observed after pickling: {e}')
    # ---- same code, same tables
    try:
        snap = snapshot(copy)
    except CaseTimeout:
        raise
    except Exception as e:
        viol(f'pickle:copy-unobservable:{type(e).__name__}', f'fgen / table dump of the unpickled object raised: {str(e)[:200]}',
             traceback=traceback.format_exc()[-1200:])
        return 0
    if snap['code'] != before['code']:
        viol(f'pickle:code-differs:{kind}', f'generated code differs: {us.snap_diff(before, snap)[:3]}',
             diff=us.snap_diff(before, snap))
    link_loss = {}
    other = []
    for p in sorted(set(before['tables']) | set(snap['tables'])):
        ta, tb_ = before['tables'].get(p), snap['tables'].get(p)
        if ta is None or tb_ is None:
            other.append(f'scope {p} only in {"original" if tb_ is None else "copy"}')
            continue
        for n_ in sorted(set(ta) | set(tb_)):
            x, y = norm_links(ta.get(n_), 'kind'), norm_links(tb_.get(n_), 'kind')
            if x == y:
                continue
            if x is not None and y is not None and norm_links(ta[n_], 'drop') == norm_links(tb_[n_], 'drop'):
                link_loss.setdefault(classify_link_loss(n_, ta[n_], p), []).append(f'{p}[{n_}]: {x} -> {y}')
            else:
                other.append(f'{p}[{n_}]: {x} -> {y}')
    only_deferred_added = bool(other) and all(x.endswith('None -> <dtype=BasicType.DEFERRED>') for x in other)
    if only_deferred_added:
        viol('pickle:tables-differ:deferred-entries-added',
             f'the unpickled symbol tables have additional DEFERRED entries: {other[:3]} ({len(other)} entries)', entries=other[:20])
    elif other:
        viol(f'pickle:tables-differ:{kind}', f'symbol tables differ: {other[:3]} ({len(other)} entries)', entries=other[:20])
    if eq is False and getattr(obj, 'parent', None) is not None:
        # a routine pickled without its enclosing module: symbols of the parent scope become deferred (documented:
        # _parent is not pickled), == is not required
        cnt['eq_not_required_parent_dropped'] = cnt.get('eq_not_required_parent_dropped', 0) + 1
    elif eq is False:
        # cause: if code and tables agree once procedure links are disregarded, the difference is the dropped link
        same_wo_links = snap['code'] == before['code'] and not other
        cause = 'procedure-link-dropped' if same_wo_links else kind
        if snap['code'] == before['code'] and only_deferred_added:
            cause = 'deferred-entries-added'
        viol(f'pickle:not-equal:{cause}', 'unpickled object does not compare == to the original'
             + (' (only ProcedureType._procedure links differ)' if same_wo_links else ''))
    # ---- symbols attached to unpickled scopes, same types
    own_o = us.own_map(us.scope_tree(obj))
    tree_c = us.scope_tree(copy)
    own_c = us.own_map(tree_c)
    path_c = dict(tree_c)
    sa, sb = symbol_pairs(obj, copy)
    n = 0
    if len(sa) != len(sb):
        viol(f'pickle:symbol-count:{kind}', f'{len(sa)} typed symbols in the original, {len(sb)} in the copy')
    else:
        bad_scope, bad_type, foreign = {}, [], []
        for (u1, v), (u2, v2) in zip(sa, sb):
            n += 1
            sc, sc2 = v.scope, v2.scope
            cls = type(v).__name__
            if sc2 is not None and id(sc2) in own_o and id(sc2) not in own_c:
                foreign.append(f'{v2} ({type(v2).__name__}) in {u2.name}')
                continue
            if sc is None or id(sc) not in own_o:
                continue            # resolved outside the pickled unit (enclosing module): not required
            p = own_o[id(sc)]
            intrinsic = bool(getattr(v.type, 'is_intrinsic', False)) if v.type is not None else False
            ok_scope = sc2 is path_c.get(p) or (intrinsic and sc2 is not None and id(sc2) in own_c)
            if not ok_scope and sc2 is not None and id(sc2) in own_c and own_c[id(sc2)].startswith(p + '/') \
                    and v2.name in sc2.symbol_attrs:
                ok_scope = True      # attached to an inner scope of the copy that holds an (enriched) entry of the name
            if not ok_scope:
                where = 'None' if sc2 is None else own_c.get(id(sc2), 'a scope outside the copy')
                upath = own_o.get(id(u1), '')
                member = len(re.findall(r'/(?:Subroutine|Function):', upath)) >= 2
                klass = 'member-routine' if (member and p != upath and sc2 is None) else cls
                bad_scope.setdefault(klass, []).append(f'{v2} ({cls}) in {u2.name}: expected scope {p}, got {where}')
                continue
            try:
                t1, t2 = v.type, v2.type
                d1 = norm_links(us.attr_dump(t1, own_o), 'kind') if t1 is not None else None
                d2 = norm_links(us.attr_dump(t2, own_c), 'kind') if t2 is not None else None
            except CaseTimeout:
                raise
            except Exception as e:
                bad_type.append(f'{v2}: type lookup raised {type(e).__name__}')
                continue
            if d1 != d2:
                if d1 is not None and d2 is not None and \
                        norm_links(us.attr_dump(t1, own_o), 'drop') == norm_links(us.attr_dump(t2, own_c), 'drop'):
                    k = classify_link_loss(str(v).lower(), us.attr_dump(t1, own_o), p)
                    if k == 'contained-registration' and sc2 is not path_c.get(p):
                        k = 'enriched-entry'       # the copy resolves through a shadowing entry of an inner scope
                    link_loss.setdefault(k, []).append(f'{v2} in {u2.name}: {d1} -> {d2}')
                else:
                    bad_type.append(f'{v2} in {u2.name}: {d1} -> {d2}')
        if foreign:
            viol('pickle:scope:attached-to-original', f'{foreign[:3]} ({len(foreign)} symbols)', symbols=foreign[:20])
        for klass, lst in sorted(bad_scope.items()):
            viol(f'pickle:scope:not-reattached:{klass}', f'{lst[:3]} ({len(lst)} symbols)', symbols=lst[:20])
        if bad_type:
            viol('pickle:type-differs', f'{bad_type[:3]} ({len(bad_type)} symbols)', symbols=bad_type[:20])
    cnt['symbols_compared'] = cnt.get('symbols_compared', 0) + n
    # ---- call links: links to procedures inside the pickled unit must survive
    try:
        links_after = call_links(copy)
        cnt['enriched_calls_checked'] = cnt.get('enriched_calls_checked', 0) + sum(1 for x in links_before if x[2] == 'ext')
        cnt['own_call_links_checked'] = cnt.get('own_call_links_checked', 0) + sum(1 for x in links_before if x[2].startswith('own'))
        if [x[:2] for x in links_after] != [x[:2] for x in links_before]:
            viol(f'pickle:calls-differ:{kind}', 'call statements differ after the round trip')
        else:
            for x, y in zip(links_before, links_after):
                if x[2].startswith('own') and (y[2] != x[2] or y[3] != x[3]):
                    if x[2] == 'own-iface':
                        k = 'interface-body'
                    elif '%' in x[1]:
                        k = 'type-bound'
                    else:
                        # resolved through the scope that holds the registration of the contained procedure, or
                        # through a shadowing (enriched) entry in an inner scope?
                        k = 'contained-registration' if y[5] == x[4].rsplit('/', 1)[0] else 'enriched-entry'
                    link_loss.setdefault(k, []).append(f'call {x[1]} in {x[0]}: routine {x[3]} ({x[2]}) -> {y[3] or "DEFERRED"} ({y[2]})')
    except CaseTimeout:
        raise
    except Exception as e:
        viol(f'pickle:call-links-unobservable:{type(e).__name__}', str(e)[:200])
    for k, lst in sorted(link_loss.items()):
        viol(f'pickle:procedure-link-lost:{k}', f'{lst[:3]} ({len(lst)} places)', places=lst[:20])
    # ---- second round trip is stable
    if second:
        try:
            copy2 = pickle.loads(pickle.dumps(copy))
            s2 = snapshot(copy2)
            if s2 != snapshot(copy):
                viol(f'pickle:second-round-trip-differs:{kind}', f'{us.snap_diff(snap, s2)[:3]}')
            elif not copy2 == copy:
                viol(f'pickle:second-round-trip-not-equal:{kind}', 'loads(dumps(copy)) != copy')
            cnt['second_round_trips'] = cnt.get('second_round_trips', 0) + 1
        except CaseTimeout:
            raise
        except Exception as e:
            what = "KeyError-_ast" if isinstance(e, KeyError) and '_ast' in str(e) else type(e).__name__
            viol(f'pickle:second-round-trip-exception:{what}', f'{type(e).__name__}: {str(e)[:200]}',
                 traceback=traceback.format_exc()[-1000:])
    # ---- host association: contained routines of the copy resolve names of the enclosing units as the original does
    # (last: a failed look-up makes Loki write DEFERRED entries into the copy's tables)
    try:
        host_resolution(obj, copy, viol, cnt)
    except CaseTimeout:
        raise
    except Exception as e:
        viol(f'pickle:host-lookup-unobservable:{type(e).__name__}', str(e)[:200], traceback=traceback.format_exc()[-1000:])
    return n


def host_resolution(obj, copy, viol, cnt):
    """
    For every routine contained in a unit of the pickled object: the chaining of scope and symbol table to the enclosing
    unit, recursive look-ups (get_type / symbol_attrs.lookup) of names declared in the enclosing units, and the class and
    type of a fresh Variable(name, scope=routine) are compared between original and copy.  Procedure links are
    disregarded here (their loss is reported by the link checks).
    """
    from loki.expression import symbols as sym
    from loki.program_unit import ProgramUnit
    tree_o, tree_c = us.scope_tree(obj), us.scope_tree(copy)
    if [p for p, _ in tree_o] != [p for p, _ in tree_c]:
        return                      # different structure: reported by the table comparison
    own_o, own_c = us.own_map(tree_o), us.own_map(tree_c)

    def dump(t, own):
        return None if t is None else norm_links(us.attr_dump(t, own), 'drop')

    chain, lookups, fresh, known_member = {}, {}, {}, []
    for (p, s), (_, s2) in zip(tree_o, tree_c):
        if not isinstance(s, ProgramUnit) or type(s2) is not type(s):
            continue
        subs, subs2 = tuple(getattr(s, 'subroutines', ()) or ()), tuple(getattr(s2, 'subroutines', ()) or ())
        if len(subs) != len(subs2):
            continue
        encl = type(s).__name__
        for r, r2 in zip(subs, subs2):
            if str(r.name).lower() != str(r2.name).lower() or r.parent is not s:
                continue
            cnt['contained_routines_checked'] = cnt.get('contained_routines_checked', 0) + 1
            where = f'{r2.name} in {p}'
            if encl != 'Module' and r2.parent is None:
                # known mechanism: Subroutine.__setstate__ does not reset the parent of member procedures
                known_member.append(f'{where}: member.parent is None after the round trip')
                continue
            if r2.parent is not s2:
                pp = own_c.get(id(r2.parent), 'None' if r2.parent is None else 'a scope outside the copy')
                chain.setdefault(f'scope-parent:{encl}', []).append(f'{where}: routine.parent is {pp}')
            if r.symbol_attrs.parent is s.symbol_attrs and r2.symbol_attrs.parent is not s2.symbol_attrs:
                tp = r2.symbol_attrs.parent
                desc = 'None' if tp is None else next((q for q, x in tree_c if x.symbol_attrs is tp), 'a table outside the copy')
                chain.setdefault(f'table-parent:{encl}', []).append(
                    f'{where}: routine.symbol_attrs.parent is {desc}, expected the table of {p}')
            # names declared in the enclosing units inside the pickled object, host-associated ones first
            names, anc = [], s
            while anc is not None and id(anc) in own_o:
                names += [str(k).lower() for k in anc.symbol_attrs.keys() if '%' not in str(k)]
                anc = anc.parent
            names = sorted(set(names))
            hosted = [x for x in names if x not in r.symbol_attrs]
            pick = hosted if len(hosted) >= 3 else hosted + [x for x in names if x in r.symbol_attrs]
            if len(pick) > 8:
                step = len(pick) / 8.0
                pick = [pick[int(i * step)] for i in range(8)]
            for name in pick:
                t1 = r.symbol_attrs.lookup(name)
                if t1 is None:
                    continue
                cnt['host_lookups'] = cnt.get('host_lookups', 0) + 1
                d1 = dump(t1, own_o)
                try:
                    g1, g2 = dump(r.get_type(name, fail=False), own_o), dump(r2.get_type(name, fail=False), own_c)
                    l2 = dump(r2.symbol_attrs.lookup(name), own_c)
                except CaseTimeout:
                    raise
                except Exception as e:
                    lookups.setdefault(encl, []).append(f'{where}: look-up of {name} raised {type(e).__name__}')
                    continue
                if g2 != g1 or l2 != d1:
                    lookups.setdefault(encl, []).append(
                        f'{where}: get_type({name}) -> {g2}, lookup -> {l2}; original: {g1}, {d1}')
            for name in pick[:4]:
                if r.symbol_attrs.lookup(name) is None:
                    continue
                cnt['fresh_symbols'] = cnt.get('fresh_symbols', 0) + 1
                try:
                    v1 = sym.Variable(name=name, scope=r)
                    f1 = (type(v1).__name__, dump(v1.type, own_o))
                except CaseTimeout:
                    raise
                except Exception:
                    continue          # the original does not allow it either: nothing to compare
                try:
                    v2 = sym.Variable(name=name, scope=r2)
                    f2 = (type(v2).__name__, dump(v2.type, own_c))
                except CaseTimeout:
                    raise
                except Exception as e:
                    f2 = (f'raised {type(e).__name__}', None)
                if f1 != f2:
                    fresh.setdefault(encl, []).append(f'{where}: Variable({name}, scope=routine) is {f2}, original gives {f1}')
    if known_member:
        viol('pickle:scope:not-reattached:member-routine', f'{known_member[:3]} ({len(known_member)} members)',
             members=known_member[:20])
    for k, lst in sorted(chain.items()):
        viol(f'pickle:host-chain:{k}', f'{lst[:3]} ({len(lst)} routines)', routines=lst[:20])
    for k, lst in sorted(lookups.items()):
        viol(f'pickle:host-lookup:type-differs:{k}', f'{lst[:3]} ({len(lst)} look-ups)', lookups=lst[:20])
    for k, lst in sorted(fresh.items()):
        viol(f'pickle:host-lookup:fresh-symbol:{k}', f'{lst[:3]} ({len(lst)} symbols)', symbols=lst[:20])


def scheduler_project(text, rng, ctx, idx):
    """Two-file project (module file + driver subroutine calling the kernel), discovered and enriched by the Scheduler."""
    from loki import Scheduler, SchedulerConfig
    from loki.frontend import FP
    d = ctx['scratch'] / f'c18_{idx}'
    d.mkdir(parents=True, exist_ok=True)
    (d / 'kmod.F90').write_text(text)
    m = re.search(r'subroutine kern\s*\((.*?)\)', text, re.I | re.S)
    args = re.sub(r'\s*&\s*\n\s*&?\s*', ' ', m.group(1)) if m else ''
    kern_spec = text.split(m.group(0))[1].split('\n  contains')[0] if m else ''
    decls = re.findall(r'^\s+(?:integer|real|logical|type)[^\n]*intent[^\n]*$', kern_spec, re.M | re.I)
    uses = 'use kmod\n' + ('  use kinds_mod\n' if 'module kinds_mod' in text.lower() else '')
    drv = (f'subroutine drv({args})\n  {uses}  implicit none\n' + '\n'.join(decls) +
           f'\n  call kern({args})\nend subroutine drv\n')
    (d / 'drv.F90').write_text(drv)
    config = SchedulerConfig.from_dict({'default': {'role': 'kernel', 'expand': True, 'strict': False},
                                        'routines': {'drv': {'role': 'driver'}}})
    sched = Scheduler(paths=[d], config=config, seed_routines=['drv'], frontend=FP)
    return sched, d


def run_case(idx, rng, tier, ctx):
    from loki import Sourcefile, Module, Subroutine
    skind, text, sl = make_source(rng, ctx, idx)
    res = {'sig': sighash(text), 'nontrivial': False, 'violations': [], 'inconclusive': None,
           'features': ['src-' + skind, 'slice-' + sl], 'counters': {}}
    witness = {'source': text, 'kind': skind, 'slice': sl}
    targets = []
    keep = []
    tmpdir = None
    try:
        if skind == 'scheduler':
            sched, tmpdir = scheduler_project(text, rng, ctx, idx)
            keep.append(sched)
            items = list(sched.items)
            res['counters']['scheduler_items'] = len(items)
            for it in items:
                ir_ = getattr(it, 'ir', None)
                if isinstance(ir_, (Module, Subroutine)):
                    targets.append((f'item:{it.name}', ir_))
            srcs = {id(it.source): it.source for it in items if getattr(it, 'source', None) is not None}
            for s in srcs.values():
                targets.append((f'itemsource:{s.path.name if s.path else "?"}', s))
        else:
            sf = Sourcefile.from_source(text)
            keep.append(sf)
            targets.append(('sourcefile', sf))
            units = [(p, s) for p, s in us.scope_tree(sf) if isinstance(s, (Module, Subroutine))]
            mods = [(p, s) for p, s in units if isinstance(s, Module)]
            routs = [(p, s) for p, s in units if isinstance(s, Subroutine) and '/Interface:' not in p]
            rng.shuffle(routs)
            targets += mods + routs[:4]
    except CaseTimeout:
        raise
    except Exception as e:
        res['features'].append('parse-failed')
        if skind not in ('corpus',):
            res['inconclusive'] = f'setup failed ({skind}): {type(e).__name__}: {str(e)[:300]}'
        if tmpdir is not None:
            shutil.rmtree(tmpdir, ignore_errors=True)
        return res
    nsym = 0
    for label, obj in targets:
        res['features'].append('target-' + type(obj).__name__ + ('-enriched' if skind == 'scheduler' else ''))
        # a second round trip of objects that contain a Module only in the repickle slice (known finding Module._ast)
        has_module = any(isinstance(x, Module) for _, x in us.scope_tree(obj))
        second = (not has_module) or sl in ('repickle_module', 'all')
        nsym += round_trip(obj, label, res, witness, second)
    if tmpdir is not None:
        shutil.rmtree(tmpdir, ignore_errors=True)
    # one violation per key and case is enough
    seen, uniq = set(), []
    for v in res['violations']:
        if v['key'] not in seen:
            seen.add(v['key'])
            uniq.append(v)
    res['violations'] = uniq
    res['nontrivial'] = res['counters'].get('round_trips', 0) >= 2 and nsym >= 20
    res['sample'] = {'source': skind, 'lines': text.count('\n'), 'targets': [t for t, _ in targets][:8], 'symbols': nsym}
    res['features'] = sorted(set(res['features']))
    return res
