"""Worker subprocess entry: python -m vlib.worker PID tier seed shard nshards outfile [indices]"""
import sys
from vlib.core import worker_main

if __name__ == '__main__':
    pid, tier, seed, shard, nshards, out = sys.argv[1:7]
    indices = [int(i) for i in sys.argv[7].split(',')] if len(sys.argv) > 7 else None
    worker_main(pid, tier, int(seed), int(shard), int(nshards), out, indices)
