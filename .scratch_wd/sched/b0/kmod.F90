module kmod
  use kinds_mod, only: jprb, npar, rpar
  implicit none
contains
  subroutine kern(n, m, a1, a2, c1, c2, d1, k1, s1, s2, s3, i1, i2, lg1)
    use kinds_mod, only: jpim, jprb
    integer, intent(in) :: n
    integer, intent(in) :: m
    real(kind=jprb), intent(in) :: a1(n)
    real(kind=jprb), intent(inout) :: a2(n)
    real(kind=jprb), intent(out) :: c1(n, m)
    real(kind=jprb), intent(out) :: c2(n, m)
    real(kind=jprb), intent(inout) :: d1(-1:n - 2)
    integer, intent(inout) :: k1(n)
    real(kind=jprb), intent(in) :: s1
    real(kind=jprb), intent(inout) :: s2
    real(kind=jprb), intent(out) :: s3
    integer, intent(in) :: i1
    integer, intent(inout) :: i2
    logical, intent(in) :: lg1
    real(kind=jprb) :: x1
    integer :: j1
    logical :: lg2
    real(kind=jprb) :: w1(n)
    real(kind=jprb) :: w2(n, m)
    real(kind=jprb) :: f1(4)
    integer :: i, j, k
    real(kind=jprb) :: zw(n), zs, zv(n, m)
    real(kind=jprb) :: zf(4)
    integer :: jz, kz
    real(kind=jprb) :: zp, zu1, zu2
    real(kind=jprb) :: zq(n, 3, 2)
    real(kind=jprb) :: sfn, sfx
    integer, parameter :: jploc = selected_real_kind(13, 300)
    real(kind=jploc) :: zloc
    sfn(sfx) = sfx*2.0_jprb + 1.0_jprb
    !$loki region-hoist target
    zq = 0.75_jprb
    zw = 0.5_jprb
    zv = 0.25_jprb
    zf = 1.0_jprb
    zs = 0.0_jprb
    zloc = 1.0_jploc
    zs = sfn(s1) + sfn(zs + 0.5_jprb)
    c1 = 7.5_jprb
    c2 = 2.0_jprb
    s3 = 2.0_jprb
    x1 = 10.0_jprb
    j1 = 11
    lg2 = .false.
    !$loki remove
    w1 = 1.0_jprb
    !$loki end remove
    w2 = 0.125_jprb
    f1 = 0.5_jprb
    select case (modulo((n - 3)*k1(n), 7))
    case (0)
      select case (modulo(4, 7))
      case (0)
        k1(n) = (j1)
        do i = n, 1, -1
          w2(:, m) = min(max(s1 - (3.0_jprb), -50.0_jprb), 50.0_jprb)
        end do
      case (3:4)
        do i = 1, n
          call isub(n, a1, s3, x1)
          x1 = maxval(a2) / (1.0_jprb + real(n*m, jprb))
        end do
        j1 = 1
        do while (j1 > 0)
          w1(1:n - 1) = min(max(s2 - (2.0_jprb), -50.0_jprb), 50.0_jprb)
          f1(1) = 2.0_jprb*cos((w1(1 + mod(1, n))*w2(n, 1 + mod(5, m)))**2)
          j1 = j1 - 1
        end do
      case (5:)
        do i = 2, n
          call isub(n, a1, x1, s2)
          w1(:) = min(max(a1*3.0_jprb - (s3 / (1.0_jprb + abs(a2))), -50.0_jprb), 50.0_jprb)
          k1(i) = (-2)**2
        end do
        x1 = sin(c1(1, 1 + mod(1, m))**2 - (-d1(1 - 2)))
      end select
    case (3:4)
      where (w1 >= s2)
        d1 = sin(d1 + 2.0_jprb / (1.0_jprb + abs(s3)))
      end where
    case (5:)
      where (d1 > d1 - (w1))
        w1 = sin(s1 + 7.5_jprb*a2)
        w1 = sin(a1 - (a1))
      elsewhere
        w1 = sin(a1 / (1.0_jprb + abs(d1)))
      end where
      a2(1:n - 1) = min(max(0.25_jprb + 1.0_jprb, -50.0_jprb), 50.0_jprb)
    case (1, 2)
      c2(n, m) = 2.0_jprb*cos(((-d1(1 - 2))))
    case default
      print '(A,ES24.16)', 'dbg s2', s2
    end select
    x1 = minval(d1) / (1.0_jprb + real(n*m, jprb))
    j1 = min(max((k1(1 + mod(2, n)))*(k1(1) + m), -40), 40)
    where (a1 < d1)
      d1 = sin(x1 / (1.0_jprb + abs(d1*w1)))
    elsewhere
      d1 = min(max(a1 - (d1), -50.0_jprb), 50.0_jprb)
    end where
    !$loki outline name(kern_o1) in(n,a1,s1) inout(a2)
    do jz = 1, n
      a2(jz) = a2(jz) + a1(jz)*s1
    end do
    !$loki end outline
    !$loki region-hoist
    zs = 2.0_jprb*s1
    !$loki end region-hoist
    if (.true.) then
      zs = 3.0_jprb
      if (.false.) then
        zs = 7.5_jprb
      end if
      if (lg1) then
        if (.not. .true.) then
          zs = 0.5_jprb
        end if
      end if
    end if
    !$loki loop-unroll depth(1)
    do jz = 1, 2
      do kz = 2, 4, 2
        zf(kz) = zf(kz) + real(jz*kz, jprb)
      end do
    end do
    zs = zs + rpar*real(npar, jprb)
    do jz = 1, npar
      zf(jz) = rpar
    end do
    !$loki loop-interchange
    do jz = 1, n
      do kz = 1, m
        zv(jz, kz) = a1(jz) + real(kz, jprb)
      end do
    end do
    do jz = 1, n
      zw(jz) = a1(jz)*s1
      !$loki loop-fission
      a2(jz) = zw(jz) + 0.25_jprb
    end do
    zw(1:n) = a1(1:n) + 0.5_jprb
    zv(:, :) = zv(:, :)*s1
    zw(:) = zw + a1
    do jz = 1, n
      zp = a1(jz)*s1
      zw(jz) = zp + 0.5_jprb
    end do
    call hdup(n, n, a1, zs)
  contains
  subroutine isub(nn, xin, xio, sout)
    integer, intent(in) :: nn
    real(kind=jprb), intent(in) :: xin(nn)
    real(kind=jprb), intent(inout) :: xio
    real(kind=jprb), intent(out) :: sout
    integer :: ii
    sout = s1
    do ii = 1, min(nn, n)
      sout = sout + xin(ii)*1.5_jprb
    end do
    sout = cos(sout)
    xio = xio*0.5_jprb + sout
  end subroutine isub
  end subroutine kern
  subroutine hdup(n1, n2, xin, sout)
    integer, intent(in) :: n1, n2
    real(kind=jprb), intent(in) :: xin(n1)
    real(kind=jprb), intent(inout) :: sout
    sout = sout + xin(1)*real(n2, jprb)
  end subroutine hdup
end module kmod
