#!/venv/bin/python
"""Regenerate the generated part of DESIGN.md (between the GENERATED markers): per-property table of checks,
known findings and seeded changes, from the check modules, known_findings/*.json and seeded/*/meta.json."""
import importlib, json, sys
from pathlib import Path
ROOT = Path(__file__).resolve().parent.parent
sys.path[:0] = [str(ROOT), str(ROOT / '.deps'), '/repo/lint_rules']
props = [json.loads(l) for l in (ROOT / 'properties.jsonl').read_text().splitlines() if l.strip()]
out = ['<!-- GENERATED:BEGIN (tools/gen_design_tables.py) -->', '',
       '### 8.3 Per-property status (generated)', '',
       '| id | deciding technique | quick / thorough cases | open findings | fixed findings | seeded changes (caught by key / missed) |',
       '|---|---|---|---|---|---|']
seed_dirs = sorted((ROOT / 'seeded').glob('*')) if (ROOT / 'seeded').exists() else []
details = []
for p in props:
    pid = p['id']
    try:
        mod = importlib.import_module(f'vlib.checks.{pid.lower()}')
        tech = getattr(mod, 'TECHNIQUE', '')[:110]
        cases = f"{mod.CASES['quick']} / {mod.CASES['thorough']}"
    except Exception as e:  # pylint: disable=broad-except
        tech, cases = f'(module not importable: {type(e).__name__})', '-'
    kf = ROOT / 'known_findings' / f'{pid}.json'
    fs = json.loads(kf.read_text())['findings'] if kf.exists() else []
    nopen = sum(1 for f in fs if f.get('status') == 'open')
    nfixed = sum(1 for f in fs if f.get('status') == 'fixed')
    seeds = []
    for d in seed_dirs:
        if d.name.rstrip('b') != pid or not (d / 'meta.json').exists():
            continue
        try:
            m = json.loads((d / 'meta.json').read_text())
        except ValueError:
            continue
        if m.get('caught'):
            seeds.append(f"{d.name}: caught ({str(m.get('caught_by_key'))[:60]})")
        else:
            seeds.append(f"{d.name}: MISSED")
            details.append(f"* **{d.name}** ({m.get('breaks', '')[:160]}): missed -- {str(m.get('why_missed', ''))[:400]}" +
                           (f" **Later:** {m['later']}" if m.get('later') else ''))
    out.append(f"| {pid} | {tech} | {cases} | {nopen} | {nfixed} | {'; '.join(seeds) or '-'} |")
out += ['', '#### Seeded changes that were missed when first judged', ''] + (details or ['(none)'])
out += ['', '<!-- GENERATED:END -->']
text = (ROOT / 'DESIGN.md').read_text()
if '<!-- GENERATED:BEGIN' in text:
    pre = text[:text.index('<!-- GENERATED:BEGIN')]
    post = text[text.index('<!-- GENERATED:END -->') + len('<!-- GENERATED:END -->'):]
    text = pre + '\n'.join(out) + post
else:
    text = text.rstrip('\n') + '\n\n' + '\n'.join(out) + '\n'
(ROOT / 'DESIGN.md').write_text(text)
print('ok', len(details), 'missed')
