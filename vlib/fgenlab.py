"""
E1 -- feature-flag Fortran program generator.

Generates a module with a kernel subroutine (plus optional helper procedures,
internal procedures and a derived type) that Loki is asked to process, and a
separate driver ``program main`` that Loki never sees.  Generated programs are
well-defined by construction: every variable is initialised before use, integer
magnitudes are bounded by interval tracking, reals are damped, subscripts stay in
bounds (sizes n, m >= 1), divisors are guarded.

    g = ProgGen(rng, flags)           # flags: dict of feature switches (see DEFAULT_FLAGS)
    case = g.generate()
    case.units      -> text of the module(s) Loki processes
    case.driver     -> text of the driver program
    case.stdins     -> list of stdin strings (input sets)
    case.features   -> set of feature names actually used
"""
from dataclasses import dataclass, field

DEFAULT_FLAGS = dict(
    arrays2d=True, lbounds=True, derived=True, int_arrays=True,
    loops=True, neg_step=True, do_while=True, labelled=True, cycle_exit=True,
    ifs=True, inline_if=True, select=True, where=True, associate=True,
    sections=True, overlap=False, strided=True,
    internal=True, functions=True, calls=True, intrinsics=True,
    io_in_kernel=False, pragmas=False, comments=True, mixed_case=False,
    continuation=False, semicolons=False, long_expr=False,
    associate_expr_complex=False, named_cycle_exit=False, double_not=False, named_if=False, quoted_strings=False,
    kinds_module=True, single=False, optional_args=False, strings=False,
    max_stmts=14, max_depth=3, expr_depth=3,
)

INT_LIMIT = 2 ** 30


@dataclass
class Var:
    name: str
    typ: str                 # 'int' | 'real' | 'logical'
    rank: int = 0
    dims: tuple = ()         # tuple of (lower_text, upper_text, lower_val_fn)
    intent: str = None       # 'in' | 'inout' | 'out' | None (local)
    bound: int = 40          # magnitude bound for ints
    derived_of: str = None   # name of derived-type variable that owns it (access via %)
    kind: str = None

    @property
    def ref(self):
        return f'{self.derived_of}%{self.name}' if self.derived_of else self.name


@dataclass
class Case:
    units: str
    driver: str
    stdins: list
    features: set
    meta: dict = field(default_factory=dict)
    entry: str = 'kern'
    modname: str = 'kmod'


class ExprGen:
    """Integer / real / logical expression text with magnitude tracking."""

    def __init__(self, rng, flags, rk='8'):
        self.rng = rng
        self.flags = flags
        self.rk = rk
        self.features = set()

    def rlit(self):
        v = self.rng.choice(['0.5', '1.5', '2.0', '0.25', '3.0', '1.0', '0.125', '7.5', '10.0'])
        return f'{v}_{self.rk}'

    def ilit(self):
        return self.rng.choice([1, 2, 3, 4, 5, 7, 11])

    # -- integer ----------------------------------------------------------
    def int_expr(self, env, depth):
        """returns (text, bound)"""
        rng = self.rng
        leaves = env.int_leaves()
        if depth <= 0 or rng.random() < 0.25:
            if leaves and rng.random() < 0.75:
                return rng.choice(leaves)
            v = self.ilit()
            return str(v), v
        kind = rng.choice(['add', 'sub', 'mul', 'div', 'neg', 'pow', 'intr', 'paren', 'add', 'mul'])
        a, ba = self.int_expr(env, depth - 1)
        if kind in ('add', 'sub'):
            b, bb = self.int_expr(env, depth - 1)
            if kind == 'sub' and not _atomic(b):
                b = f'({b})'
            if ba + bb >= INT_LIMIT:
                a, ba = f'mod({a}, 97)', 97
                b, bb = f'mod({b}, 89)', 89
            return f"{a} {'+' if kind == 'add' else '-'} {b}", ba + bb
        if kind == 'mul':
            b, bb = self.int_expr(env, depth - 1)
            if ba * bb >= INT_LIMIT:
                a, ba = f'mod({a}, 97)', 97
                b, bb = f'mod({b}, 89)', 89
            return f'{_par_add(a)}*{_par_add(b)}', ba * bb
        if kind == 'div':
            b, bb = self.int_expr(env, depth - 1)
            self.features.add('int_div')
            d = rng.choice([2, 3, 4, 5])
            if rng.random() < 0.5:
                return f'{_par_add(a)} / {d}', ba
            return f'{_par_add(a)} / (1 + abs({b}))', ba
        if kind == 'neg':
            return f'(-{_par_add(a)})', ba
        if kind == 'pow':
            self.features.add('int_pow')
            e = rng.choice([2, 2, 3])
            if ba ** e >= INT_LIMIT:
                a, ba = f'mod({a}, 13)', 13
            return f'{_par_all(a)}**{e}', ba ** e
        if kind == 'intr' and self.flags.get('intrinsics', True):
            self.features.add('intrinsic')
            b, bb = self.int_expr(env, depth - 1)
            f = rng.choice(['max', 'min', 'mod', 'abs', 'modulo', 'sign', 'merge', 'int', 'nint'])
            if f in ('max', 'min'):
                return f'{f}({a}, {b})', max(ba, bb)
            if f == 'mod':
                d = rng.choice([3, 5, 7])
                return f'mod({a}, {d})', d
            if f == 'modulo':
                d = rng.choice([3, 4, 6])
                return f'modulo({a}, {d})', d
            if f == 'abs':
                return f'abs({a})', ba
            if f == 'sign':
                return f'sign({a}, {b})', ba
            if f == 'merge':
                c = self.log_expr(env, depth - 1)
                return f'merge({a}, {b}, {c})', max(ba, bb)
            r = self.real_expr(env, depth - 1)
            return f'{f}(max(min({r}, 90.0_{self.rk}), -90.0_{self.rk}))', 91
        return f'({a})', ba

    # -- real -------------------------------------------------------------
    def real_expr(self, env, depth):
        rng = self.rng
        leaves = env.real_leaves()
        if depth <= 0 or rng.random() < 0.25:
            if leaves and rng.random() < 0.8:
                return rng.choice(leaves)
            return self.rlit()
        kind = rng.choice(['add', 'sub', 'mul', 'div', 'neg', 'pow', 'intr', 'paren', 'conv', 'add', 'mul'])
        a = self.real_expr(env, depth - 1)
        if kind in ('add', 'sub'):
            b = self.real_expr(env, depth - 1)
            if kind == 'sub' and not _atomic(b):
                b = f'({b})'
            return f"{a} {'+' if kind == 'add' else '-'} {b}"
        if kind == 'mul':
            b = self.real_expr(env, depth - 1)
            return f'{_par_add(a)}*{_par_add(b)}'
        if kind == 'div':
            b = self.real_expr(env, depth - 1)
            self.features.add('real_div')
            return f'{_par_add(a)} / (1.0_{self.rk} + abs({b}))'
        if kind == 'neg':
            return f'(-{_par_add(a)})'
        if kind == 'pow':
            self.features.add('real_pow')
            return f'{_par_all(a)}**2'
        if kind == 'conv':
            i, _ = self.int_expr(env, depth - 1)
            return f'real({i}, {self.rk})'
        if kind == 'intr' and self.flags.get('intrinsics', True):
            self.features.add('intrinsic')
            f = rng.choice(['sin', 'cos', 'abs', 'max', 'min', 'sqrt', 'exp', 'sign', 'merge', 'tanh'])
            if f in ('sin', 'cos', 'abs', 'tanh'):
                return f'{f}({a})'
            if f == 'sqrt':
                return f'sqrt(abs({a}))'
            if f == 'exp':
                return f'exp(-abs({a}))'
            b = self.real_expr(env, depth - 1)
            if f == 'merge':
                return f'merge({a}, {b}, {self.log_expr(env, depth - 1)})'
            return f'{f}({a}, {b})'
        return f'({a})'

    def damp(self, e):
        """bound a real expression to [-50, 50]"""
        c = self.rng.randrange(4)
        if c == 0:
            return f'sin({e})'
        if c == 1:
            return f'({e}) / (1.0_{self.rk} + abs({e}))'
        if c == 2:
            return f'min(max({e}, -50.0_{self.rk}), 50.0_{self.rk})'
        return f'2.0_{self.rk}*cos({e})'

    # -- logical ----------------------------------------------------------
    def log_expr(self, env, depth):
        rng = self.rng
        kind = rng.choice(['icmp', 'rcmp', 'and', 'or', 'not', 'icmp', 'rcmp', 'lvar'])
        if depth <= 0 and kind in ('and', 'or', 'not'):
            kind = 'icmp'
        if kind == 'lvar':
            lv = env.log_leaves()
            if lv:
                return rng.choice(lv)
            kind = 'icmp'
        if kind == 'icmp':
            a, _ = self.int_expr(env, max(depth - 1, 0))
            b, _ = self.int_expr(env, max(depth - 1, 0))
            op = rng.choice(['==', '/=', '<', '<=', '>', '>='])
            if self.flags.get('old_ops') and rng.random() < 0.5:
                op = {'==': '.eq.', '/=': '.ne.', '<': '.lt.', '<=': '.le.', '>': '.gt.', '>=': '.ge.'}[op]
            return f'{a} {op} {b}'
        if kind == 'rcmp':
            a = self.real_expr(env, max(depth - 1, 0))
            b = self.real_expr(env, max(depth - 1, 0))
            op = rng.choice(['<', '<=', '>', '>='])
            return f'{a} {op} {b}'
        if kind == 'not':
            inner = self.log_expr(env, depth - 1)
            if inner.startswith('.not.') and not self.flags.get('double_not'):
                return inner[5:].strip()
            if inner.startswith('.not.'):
                self.features.add('double_not')
            return f'.not. ({inner})'
        a = self.log_expr(env, depth - 1)
        b = self.log_expr(env, depth - 1)
        op = '.and.' if kind == 'and' else '.or.'
        return f'({a}) {op} ({b})'


def _atomic(t):
    t = t.strip()
    if t.startswith('(') and t.endswith(')') and _balanced(t[1:-1]):
        return True
    depth = 0
    for i, ch in enumerate(t):
        if ch == '(':
            depth += 1
        elif ch == ')':
            depth -= 1
        elif depth == 0 and ch in '+-*/ ' and i > 0:
            return False
    return not t.startswith('-')


def _balanced(t):
    d = 0
    for ch in t:
        if ch == '(':
            d += 1
        elif ch == ')':
            d -= 1
            if d < 0:
                return False
    return d == 0


def _par_add(t):
    """parenthesise unless atomic or a pure product"""
    if _atomic(t):
        return t
    return f'({t})'


def _par_all(t):
    return t if _atomic(t) else f'({t})'


class Env:
    """Variables visible at a program point, and which subscripts are available."""

    def __init__(self, gen):
        self.gen = gen
        self.vars = []
        self.loopvars = []      # stack of (name, dimsize 'n'|'m')
        self.assoc = []         # stack of dict name -> (kind, text)
        self.readonly = set()

    def add(self, v):
        self.vars.append(v)
        return v

    def scalars(self, typ, writable=False):
        return [v for v in self.vars if v.typ == typ and v.rank == 0
                and (not writable or (v.intent != 'in' and v.name not in self.readonly))]

    def arrays(self, typ=None, rank=None, writable=False):
        return [v for v in self.vars if v.rank > 0 and (typ is None or v.typ == typ)
                and (rank is None or v.rank == rank)
                and (not writable or (v.intent != 'in' and v.name not in self.readonly))]

    def elem(self, v):
        """an in-bounds element reference text for array v, or None"""
        rng = self.gen.rng
        subs = []
        for (lo, up, size) in v.dims:
            cands = [lv for lv, sz in self.loopvars if sz == size]
            if cands and rng.random() < 0.85:
                lv = rng.choice(cands)
                c = rng.random()
                if c < 0.7:
                    s = lv
                elif c < 0.85:
                    s = f'{size} + 1 - {lv}'
                else:
                    s = f'1 + mod({lv}, {size})'
            else:
                c = rng.random()
                if isinstance(size, int):
                    s = str(rng.randint(1, size))
                elif c < 0.4:
                    s = '1'
                elif c < 0.7:
                    s = size
                else:
                    s = f'1 + mod({rng.choice([1, 2, 3, 5])}, {size})'
            off = int(lo) - 1
            if off > 0:
                s = f'{s} + {off}'
            elif off < 0:
                s = f'{s} - {-off}'
            subs.append(s)
        return f"{v.ref}({', '.join(subs)})"

    def int_leaves(self):
        out = [(v.ref, v.bound) for v in self.scalars('int')]
        for lv, sz in self.loopvars:
            out.append((lv, 16))
        for v in self.arrays('int'):
            out.append((self.elem(v), v.bound))
        for frame in self.assoc:
            for nm, (typ, _t, bound) in frame.items():
                if typ == 'int':
                    out.append((nm, bound))
        return out

    def real_leaves(self):
        out = [v.ref for v in self.scalars('real')]
        for v in self.arrays('real'):
            out.append(self.elem(v))
            if self.loopvars and self.gen.rng.random() < 0.5:
                out.append(self.elem(v))
        for frame in self.assoc:
            for nm, (typ, _t, _b) in frame.items():
                if typ == 'real':
                    out.append(nm)
        return out

    def log_leaves(self):
        return [v.ref for v in self.scalars('logical')]


class ProgGen:

    def __init__(self, rng, flags=None):
        self.rng = rng
        self.flags = dict(DEFAULT_FLAGS)
        if flags:
            self.flags.update(flags)
        self.rk = 'jprb' if self.flags.get('kinds_module') else '8'
        self.ex = ExprGen(rng, self.flags, self.rk)
        self.features = self.ex.features
        self.env = Env(self)
        self.nloop = 0
        self.helpers = []       # text of helper module procedures
        self.internals = []     # text of internal procedures
        self.helper_sigs = []   # (name, kind) callable helpers
        self.labels = 0
        self.stmt_count = 0

    # ---------------------------------------------------------------- setup
    def _setup_vars(self):
        rng, f, env = self.rng, self.flags, self.env
        env.add(Var('n', 'int', intent='in', bound=8))
        env.add(Var('m', 'int', intent='in', bound=8))
        nreal1 = rng.randint(2, 3)
        for i in range(nreal1):
            intent = 'in' if i == 0 else rng.choice(['inout', 'inout', 'out'])
            env.add(Var(f'a{i + 1}', 'real', 1, (('1', 'n', 'n'),), intent))
        if f['arrays2d']:
            for i in range(rng.randint(1, 2)):
                env.add(Var(f'c{i + 1}', 'real', 2, (('1', 'n', 'n'), ('1', 'm', 'm')), rng.choice(['inout', 'in', 'out'])))
        if f['lbounds'] and rng.random() < 0.7:
            lo = rng.choice(['0', '-1', '2'])
            up = {'0': 'n - 1', '-1': 'n - 2', '2': 'n + 1'}[lo]
            env.add(Var('d1', 'real', 1, ((lo, up, 'n'),), 'inout'))
            self.features.add('lbound')
        if f['int_arrays']:
            env.add(Var('k1', 'int', 1, (('1', 'n', 'n'),), 'inout'))
        env.add(Var('s1', 'real', intent='in'))
        env.add(Var('s2', 'real', intent='inout'))
        env.add(Var('s3', 'real', intent='out'))
        env.add(Var('i1', 'int', intent='in', bound=40))
        env.add(Var('i2', 'int', intent='inout'))
        env.add(Var('lg1', 'logical', intent='in'))
        self.has_derived = f['derived'] and rng.random() < 0.6
        if self.has_derived:
            self.features.add('derived_type')
            env.add(Var('p', 'real', derived_of='t1'))
            env.add(Var('q', 'real', 1, (('1', '5', 5),), derived_of='t1'))
            env.add(Var('kk', 'int', derived_of='t1'))
        # locals
        for i in range(rng.randint(1, 3)):
            env.add(Var(f'x{i + 1}', 'real'))
        for i in range(rng.randint(1, 2)):
            env.add(Var(f'j{i + 1}', 'int'))
        env.add(Var('lg2', 'logical'))
        if rng.random() < 0.7:
            env.add(Var('w1', 'real', 1, (('1', 'n', 'n'),)))
        if f['arrays2d'] and rng.random() < 0.4:
            env.add(Var('w2', 'real', 2, (('1', 'n', 'n'), ('1', 'm', 'm'))))
        if rng.random() < 0.4:
            env.add(Var('f1', 'real', 1, (('1', '4', 4),)))

    # ------------------------------------------------------------ statements
    def _assign_target(self, typ):
        env, rng = self.env, self.rng
        sc = env.scalars(typ, writable=True)
        ar = env.arrays(typ, writable=True)
        if ar and (not sc or rng.random() < 0.55):
            v = rng.choice(ar)
            return env.elem(v), v
        if sc:
            v = rng.choice(sc)
            return v.ref, v
        return None, None

    def stmt_assign(self, ind):
        rng = self.rng
        typ = rng.choice(['real', 'real', 'real', 'int', 'logical'])
        tgt, v = self._assign_target(typ)
        if tgt is None:
            typ = 'real'
            tgt, v = self._assign_target('real')
        d = self.flags['expr_depth']
        if self.flags.get('long_expr') and rng.random() < 0.3:
            d += 2
            self.features.add('long_expr')
        if typ == 'real':
            e = self.ex.damp(self.ex.real_expr(self.env, d))
        elif typ == 'int':
            e, b = self.ex.int_expr(self.env, d)
            if b > v.bound:
                e = rng.choice([f'mod({e}, {rng.choice([17, 23, 37])})', f'min(max({e}, -40), 40)'])
        else:
            e = self.ex.log_expr(self.env, 2)
        return [f'{ind}{tgt} = {e}']

    def _loop_header(self, lv, size):
        rng, f = self.rng, self.flags
        c = rng.random()
        if f['neg_step'] and c < 0.2:
            self.features.add('neg_step')
            return f'do {lv} = {size}, 1, -1'
        if f['strided'] and c < 0.35:
            self.features.add('loop_step')
            return f'do {lv} = 1, {size}, 2'
        if c < 0.45:
            return f'do {lv} = 2, {size}'
        if c < 0.5:
            return f'do {lv} = 1, {size} - 1'
        return f'do {lv} = 1, {size}'

    def stmt_loop(self, ind, depth):
        env, rng = self.env, self.rng
        used = {lv for lv, _ in env.loopvars}
        avail = [lv for lv in ('i', 'j', 'k') if lv not in used]
        if not avail:
            return self.stmt_assign(ind)
        lv = avail[0]
        size = rng.choice(['n', 'n', 'm'])
        self.features.add('loop')
        label = None
        hdr = self._loop_header(lv, size)
        if self.flags['labelled'] and rng.random() < 0.25:
            self.labels += 1
            label = f'lp{self.labels}'
            hdr = f'{label}: {hdr}'
            self.features.add('labelled_loop')
        env.loopvars.append((lv, size))
        body = self.block(ind + '  ', depth - 1, rng.randint(1, 3), loop_label=label or True)
        env.loopvars.pop()
        return [ind + hdr] + body + [ind + (f'end do {label}' if label else 'end do')]

    def stmt_while(self, ind, depth):
        env = self.env
        cnt = [v for v in env.scalars('int', writable=True) if v.name.startswith('j') and v.name not in env.readonly]
        if not cnt:
            return self.stmt_assign(ind)
        v = cnt[0]
        self.features.add('do_while')
        env.readonly.add(v.name)
        body = self.block(ind + '  ', depth - 1, self.rng.randint(1, 2))
        env.readonly.discard(v.name)
        return [f'{ind}{v.name} = {self.rng.randint(1, 4)}', f'{ind}do while ({v.name} > 0)'] + body + \
               [f'{ind}  {v.name} = {v.name} - 1', f'{ind}end do']

    def stmt_if(self, ind, depth, loop_label=None):
        rng = self.rng
        self.features.add('if')
        nm = ''
        if self.flags.get('named_if') and rng.random() < 0.35:
            self.labels += 1
            nm = f'cnd{self.labels}'
            self.features.add('named_if')
        out = [f"{ind}{nm + ': ' if nm else ''}if ({self.ex.log_expr(self.env, 2)}) then"]
        out += self.block(ind + '  ', depth - 1, rng.randint(1, 2), loop_label)
        for _ in range(rng.choice([0, 0, 1, 2, 3] if nm else [0, 0, 1, 2])):
            self.features.add('else_if')
            out.append(f"{ind}else if ({self.ex.log_expr(self.env, 1)}) then{' ' + nm if nm else ''}")
            out += self.block(ind + '  ', depth - 1, rng.randint(1, 2), loop_label)
        if rng.random() < 0.6:
            out.append(f"{ind}else{' ' + nm if nm else ''}")
            out += self.block(ind + '  ', depth - 1, rng.randint(1, 2), loop_label)
        out.append(f"{ind}end if{' ' + nm if nm else ''}")
        return out

    def stmt_inline_if(self, ind, loop_label=None):
        self.features.add('inline_if')
        if loop_label and self.flags['cycle_exit'] and self.rng.random() < 0.5:
            self.features.add('cycle_exit')
            kw = self.rng.choice(['cycle', 'exit'])
            lab = ''
            if isinstance(loop_label, str) and self.flags.get('named_cycle_exit') and self.rng.random() < 0.7:
                lab = f' {loop_label}'
                self.features.add('named_cycle_exit')
            # without label cycle/exit refer to innermost loop which is fine too
            return [f'{ind}if ({self.ex.log_expr(self.env, 1)}) {kw}{lab}']
        a = self.stmt_assign('')[0]
        return [f'{ind}if ({self.ex.log_expr(self.env, 1)}) {a}']

    def stmt_select(self, ind, depth, loop_label=None):
        rng = self.rng
        self.features.add('select_case')
        e, _ = self.ex.int_expr(self.env, 2)
        out = [f'{ind}select case (modulo({e}, 7))']
        opts = [['(0)'], ['(1, 2)'], ['(3:4)'], ['(5:)']]
        rng.shuffle(opts)
        blocks = []
        for o in opts[:rng.randint(1, 4)]:
            blocks.append([f'{ind}case {o[0]}'] + self.block(ind + '  ', depth - 1, rng.randint(1, 2), loop_label))
        if rng.random() < 0.6:
            dflt = [f'{ind}case default'] + self.block(ind + '  ', depth - 1, 1, loop_label)
            # CASE DEFAULT may appear anywhere among the case blocks
            pos = len(blocks) if rng.random() < 0.5 else rng.randint(0, len(blocks))
            if pos < len(blocks):
                self.features.add('case_default_not_last')
            blocks.insert(pos, dflt)
        for b in blocks:
            out += b
        out.append(f'{ind}end select')
        return out

    def _arr_expr(self, arrs, depth):
        """elementwise real expression over conformable whole arrays (names given as text)"""
        rng = self.rng
        if depth <= 0 or rng.random() < 0.3:
            c = rng.random()
            if c < 0.6:
                return rng.choice(arrs)
            if c < 0.8:
                sc = self.env.scalars('real')
                return rng.choice(sc).ref if sc else self.ex.rlit()
            return self.ex.rlit()
        k = rng.choice(['add', 'sub', 'mul', 'intr', 'div'])
        a = self._arr_expr(arrs, depth - 1)
        b = self._arr_expr(arrs, depth - 1)
        if k == 'add':
            return f'{a} + {b}'
        if k == 'sub':
            return f'{a} - ({b})'
        if k == 'mul':
            return f'{_par_add(a)}*{_par_add(b)}'
        if k == 'div':
            return f'{_par_add(a)} / (1.0_{self.rk} + abs({b}))'
        f = rng.choice(['sin', 'abs', 'max', 'min', 'cos'])
        if f in ('max', 'min'):
            return f'{f}({a}, {b})'
        return f'{f}({a})'

    def _damp_arr(self, e):
        return f'sin({e})' if self.rng.random() < 0.5 else f'min(max({e}, -50.0_{self.rk}), 50.0_{self.rk})'

    def stmt_where(self, ind):
        env, rng = self.env, self.rng
        arrs = [v for v in env.arrays('real', rank=1) if v.dims[0][2] == 'n']
        wr = [v for v in arrs if v.intent != 'in' and v.name not in env.readonly]
        if not wr or len(arrs) < 2:
            return self.stmt_assign(ind)
        self.features.add('where')
        names = [v.ref for v in arrs]
        t = rng.choice(wr)
        mask = f'{rng.choice(names)} {rng.choice(["<", ">", ">=", "<="])} {self._arr_expr(names, 1)}'
        if rng.random() < 0.3:
            return [f'{ind}where ({mask}) {t.ref} = {self._damp_arr(self._arr_expr(names, 2))}']
        out = [f'{ind}where ({mask})', f'{ind}  {t.ref} = {self._damp_arr(self._arr_expr(names, 2))}']
        if rng.random() < 0.4:
            t2 = rng.choice(wr)
            out.append(f'{ind}  {t2.ref} = {self._damp_arr(self._arr_expr(names, 1))}')
        if rng.random() < 0.4:
            self.features.add('elsewhere_mask')
            out.append(f'{ind}elsewhere ({rng.choice(names)} > {self.ex.rlit()})')
            out.append(f'{ind}  {t.ref} = {self._damp_arr(self._arr_expr(names, 1))}')
        if rng.random() < 0.6:
            out.append(f'{ind}elsewhere')
            out.append(f'{ind}  {t.ref} = {self._damp_arr(self._arr_expr(names, 1))}')
        out.append(f'{ind}end where')
        return out

    def stmt_section(self, ind):
        env, rng = self.env, self.rng
        arrs = [v for v in env.arrays('real', rank=1) if v.dims[0][2] == 'n' and v.dims[0][0] == '1']
        wr = [v for v in arrs if v.intent != 'in' and v.name not in env.readonly]
        if not wr:
            return self.stmt_assign(ind)
        self.features.add('array_section')
        t = rng.choice(wr)
        others = [v for v in arrs if v is not t] or arrs
        c = rng.random()
        if c < 0.3:
            names = [f'{v.ref}(:)' if rng.random() < 0.5 else v.ref for v in others]
            return [f'{ind}{t.ref}(:) = {self._damp_arr(self._arr_expr(names, 2))}']
        if c < 0.55:
            names = [f'{v.ref}(2:n)' for v in others]
            return [f'{ind}{t.ref}(1:n - 1) = {self._damp_arr(self._arr_expr(names, 1))}']
        if c < 0.7 and self.flags['strided']:
            self.features.add('strided_section')
            names = [f'{v.ref}(1:n:2)' for v in others]
            return [f'{ind}{t.ref}(1:n:2) = {self._damp_arr(self._arr_expr(names, 1))}']
        if c < 0.8 and self.flags['overlap']:
            self.features.add('overlap_section')
            if rng.random() < 0.5:
                return [f'{ind}{t.ref}(2:n) = {t.ref}(1:n - 1)*0.5_{self.rk} + {rng.choice(others).ref}(2:n)']
            return [f'{ind}{t.ref}(1:n - 1) = {t.ref}(2:n) + 1.0_{self.rk}']
        c2 = [v for v in env.arrays('real', rank=2, writable=True) if v.name not in env.readonly]
        if c2:
            self.features.add('section_2d')
            w = rng.choice(c2)
            col = self.env.loopvars and [lv for lv, sz in self.env.loopvars if sz == 'm']
            jj = col[0] if col else rng.choice(['1', 'm'])
            names = [v.ref for v in others]
            return [f'{ind}{w.ref}(:, {jj}) = {self._damp_arr(self._arr_expr(names, 1))}']
        return [f'{ind}{t.ref} = {self._damp_arr(self._arr_expr([v.ref for v in others], 2))}']

    def stmt_reduction(self, ind):
        env, rng = self.env, self.rng
        arrs = env.arrays('real')
        sc = env.scalars('real', writable=True)
        if not arrs or not sc:
            return self.stmt_assign(ind)
        self.features.add('reduction_intrinsic')
        f = rng.choice(['sum', 'maxval', 'minval'])
        return [f'{ind}{rng.choice(sc).ref} = {f}({rng.choice(arrs).ref}) / (1.0_{self.rk} + real(n*m, {self.rk}))']

    def stmt_associate(self, ind, depth, loop_label=None):
        env, rng = self.env, self.rng
        self.features.add('associate')
        frame = {}
        items = []
        nm_i = len(env.assoc)
        sc = env.scalars('real') + [v for v in env.scalars('int')]
        for k in range(rng.randint(1, 2)):
            v = rng.choice(sc)
            nm = f'z{nm_i}{k}'
            frame[nm] = (v.typ, v.ref, v.bound)
            items.append(f'{nm} => {v.ref}')
            if v.derived_of:
                self.features.add('associate_component')
        if rng.random() < 0.4:
            # expression selector (read-only)
            nm = f'ze{nm_i}'
            if self.flags.get('associate_expr_complex'):
                e = self.ex.damp(self.ex.real_expr(env, 1))
                self.features.add('associate_expr_complex')
            else:
                # selectors restricted to sums/products of variables and literals
                lv = [x for x in env.real_leaves() if '(' not in x] or [self.ex.rlit()]
                e = f'{rng.choice(lv)} + {rng.choice(lv)}*{self.ex.rlit()}'
            frame[nm] = ('real', e, 0)
            items.append(f'{nm} => {e}')
            self.features.add('associate_expr')
        # associate names are used read-only in expressions: the variables they alias must not
        # be written inside the block when the selector is an expression; aliasing a variable is fine.
        env.assoc.append(frame)
        body = self.block(ind + '  ', depth - 1, rng.randint(1, 3), loop_label)
        env.assoc.pop()
        return [f"{ind}associate ({', '.join(items)})"] + body + [f'{ind}end associate']

    def stmt_call(self, ind):
        rng = self.rng
        if not self.helper_sigs:
            return self.stmt_assign(ind)
        name, kind = rng.choice(self.helper_sigs)
        env = self.env
        self.features.add('call_' + kind)
        if kind in ('sub', 'isub'):
            # subroutine name(nn, xin, xio, sout): xin array in, xio scalar inout, sout scalar out
            arrs = [v for v in env.arrays('real', rank=1) if v.dims[0][2] == 'n' and v.dims[0][0] == '1']
            sc = [v for v in env.scalars('real', writable=True)]
            if not arrs or len(sc) < 2:
                return self.stmt_assign(ind)
            a = rng.choice(arrs)
            s_io, s_out = rng.sample(sc, 2)
            if rng.random() < 0.3:
                self.features.add('keyword_args')
                return [f'{ind}call {name}(n, {a.ref}, sout={s_out.ref}, xio={s_io.ref})']
            return [f'{ind}call {name}(n, {a.ref}, {s_io.ref}, {s_out.ref})']
        # function fname(x, k) result real
        tgt, _ = self._assign_target('real')
        e = self.ex.real_expr(env, 1)
        i, _b = self.ex.int_expr(env, 1)
        return [f'{ind}{tgt} = {self.ex.damp(f"{name}({e}, {i}) + {self.ex.real_expr(env, 1)}")}']

    def stmt_print(self, ind):
        self.features.add('print_in_kernel')
        sc = self.env.scalars('real') + self.env.scalars('int')
        v = self.rng.choice(sc)
        if self.flags.get('quoted_strings') and self.rng.random() < 0.5:
            self.features.add('quoted_string_literal')
            lit = self.rng.choice(["'can''t stop'", "'a ''quoted'' word'", "'say \"hi\" now'", "\"it's fine\"", "''''",
                                   "'trailing quote'''", "'two '''' quotes'"])
            return [f"{ind}print '(A)', {lit}"]
        if v.typ == 'real':
            return [f"{ind}print '(A,ES24.16)', 'dbg {v.name}', {v.ref}"]
        return [f"{ind}print '(A,I0)', 'dbg {v.name} ', {v.ref}"]

    def stmt_comment(self, ind):
        self.features.add('comment')
        return [f"{ind}! {self.rng.choice(['note: end do', 'call foo(x)', 'if (a) then', 'x = 1 ! y', 'TODO'])}"]

    def block(self, ind, depth, nstmts, loop_label=None):
        rng, f = self.rng, self.flags
        out = []
        for _ in range(nstmts):
            if self.stmt_count > f['max_stmts'] * 3:
                depth = 0
            self.stmt_count += 1
            choices = ['assign'] * 5
            if depth > 0:
                if f['loops']:
                    choices += ['loop'] * 3
                if f['do_while']:
                    choices += ['while']
                if f['ifs']:
                    choices += ['if'] * 2
                if f['select']:
                    choices += ['select']
                if f['associate']:
                    choices += ['associate']
            if f['inline_if']:
                choices += ['inline_if']
            if f['where']:
                choices += ['where']
            if f['sections']:
                choices += ['section', 'reduction']
            if f['calls'] and self.helper_sigs:
                choices += ['call'] * 2
            if f['io_in_kernel']:
                choices += ['print']
            if f['comments']:
                choices += ['comment']
            c = rng.choice(choices)
            if c == 'assign':
                out += self.stmt_assign(ind)
            elif c == 'loop':
                out += self.stmt_loop(ind, depth)
            elif c == 'while':
                out += self.stmt_while(ind, depth)
            elif c == 'if':
                out += self.stmt_if(ind, depth, loop_label)
            elif c == 'inline_if':
                out += self.stmt_inline_if(ind, loop_label)
            elif c == 'select':
                out += self.stmt_select(ind, depth, loop_label)
            elif c == 'where':
                out += self.stmt_where(ind)
            elif c == 'section':
                out += self.stmt_section(ind)
            elif c == 'reduction':
                out += self.stmt_reduction(ind)
            elif c == 'associate':
                out += self.stmt_associate(ind, depth, loop_label)
            elif c == 'call':
                out += self.stmt_call(ind)
            elif c == 'print':
                out += self.stmt_print(ind)
            elif c == 'comment':
                out += self.stmt_comment(ind)
        return out

    # --------------------------------------------------------------- helpers
    def _gen_helpers(self):
        rng, f, rk = self.rng, self.flags, self.rk
        if f['calls'] and rng.random() < 0.8:
            self.helpers.append(f"""  subroutine hsub(nn, xin, xio, sout)
    integer, intent(in) :: nn
    real(kind={rk}), intent(in) :: xin(nn)
    real(kind={rk}), intent(inout) :: xio
    real(kind={rk}), intent(out) :: sout
    integer :: ii
    sout = 0.0_{rk}
    do ii = 1, nn
      sout = sout + xin(ii)*{self.ex.rlit()}
    end do
    sout = sout / (1.0_{rk} + real(nn, {rk}))
    xio = sin(xio + sout)
  end subroutine hsub
""")
            self.helper_sigs.append(('hsub', 'sub'))
        if f['functions'] and rng.random() < 0.8:
            self.helpers.append(f"""  function hfun(x, k) result(r)
    real(kind={rk}), intent(in) :: x
    integer, intent(in) :: k
    real(kind={rk}) :: r
    r = x*{self.ex.rlit()} + real(mod(k, 5), {rk})
    if (k > 3) r = r - {self.ex.rlit()}
  end function hfun
""")
            self.helper_sigs.append(('hfun', 'fun'))
        if f['functions'] and rng.random() < 0.4:
            self.features.add('elemental_function')
            self.helpers.append(f"""  elemental function hele(x, k) result(r)
    real(kind={rk}), intent(in) :: x
    integer, intent(in) :: k
    real(kind={rk}) :: r
    r = cos(x) + real(k, {rk})*0.25_{rk}
  end function hele
""")
            self.helper_sigs.append(('hele', 'fun'))

    def _gen_internals(self):
        rng, f, rk = self.rng, self.flags, self.rk
        if not f['internal'] or rng.random() < 0.4:
            return
        self.features.add('internal_procedure')
        # internal subroutine using host association of s1 (in) and n
        self.internals.append(f"""  subroutine isub(nn, xin, xio, sout)
    integer, intent(in) :: nn
    real(kind={rk}), intent(in) :: xin(nn)
    real(kind={rk}), intent(inout) :: xio
    real(kind={rk}), intent(out) :: sout
    integer :: ii
    sout = s1
    do ii = 1, min(nn, n)
      sout = sout + xin(ii)*{self.ex.rlit()}
    end do
    sout = cos(sout)
    xio = xio*0.5_{rk} + sout
  end subroutine isub
""")
        self.helper_sigs.append(('isub', 'isub'))
        if rng.random() < 0.5:
            self.internals.append(f"""  function ifun(x, k) result(r)
    real(kind={rk}), intent(in) :: x
    integer, intent(in) :: k
    real(kind={rk}) :: r
    r = x + s1*real(k + i1, {rk})*0.01_{rk}
  end function ifun
""")
            self.helper_sigs.append(('ifun', 'fun'))

    # ----------------------------------------------------------------- units
    def _decl(self, v):
        rk = self.rk
        t = {'int': 'integer', 'real': f'real(kind={rk})', 'logical': 'logical'}[v.typ]
        attrs = ''
        if v.intent:
            attrs = f', intent({v.intent})'
        dims = ''
        if v.rank:
            dd = []
            for lo, up, _ in v.dims:
                dd.append(up if lo == '1' else f'{lo}:{up}')
            dims = '(' + ', '.join(dd) + ')'
        return f'    {t}{attrs} :: {v.name}{dims}'

    def generate(self):
        rng, f, rk = self.rng, self.flags, self.rk
        self._setup_vars()
        self._gen_helpers()
        self._gen_internals()
        env = self.env
        args = [v for v in env.vars if v.intent and not v.derived_of]
        argnames = [v.name for v in args]
        if self.has_derived:
            argnames.append('t1')
        locs = [v for v in env.vars if not v.intent and not v.derived_of]
        # initialisation of outs and locals
        init = []
        for v in env.vars:
            if v.derived_of or v.intent in ('in', 'inout'):
                continue
            if v.typ == 'real':
                init.append(f'    {v.name} = {self.ex.rlit()}')
            elif v.typ == 'int':
                init.append(f'    {v.name} = {self.ex.ilit()}')
            else:
                init.append(f'    {v.name} = .false.')
        body = self.block('    ', f['max_depth'], rng.randint(4, f['max_stmts']))
        lines = []
        modname = 'kmod'
        if f.get('kinds_module'):
            lines.append('module kinds_mod\n  implicit none\n  integer, parameter :: jprb = selected_real_kind(13, 300)\n'
                         '  integer, parameter :: jpim = selected_int_kind(9)\nend module kinds_mod\n')
        lines.append(f'module {modname}')
        if f.get('kinds_module'):
            lines.append('  use kinds_mod, only: jprb')
        lines.append('  implicit none')
        if self.has_derived:
            lines.append(f'  type :: ttype\n    real(kind={rk}) :: p\n    real(kind={rk}) :: q(5)\n    integer :: kk\n  end type ttype')
        lines.append('contains')
        lines.append(f"  subroutine kern({', '.join(argnames)})")
        for v in args:
            lines.append(self._decl(v))
        if self.has_derived:
            lines.append('    type(ttype), intent(inout) :: t1')
        for v in locs:
            lines.append(self._decl(v))
        lines.append('    integer :: i, j, k')
        lines += init
        lines += body
        if self.internals:
            lines.append('  contains')
            lines += self.internals
        lines.append('  end subroutine kern')
        lines += self.helpers
        lines.append(f'end module {modname}')
        units = '\n'.join(ln.rstrip('\n') for ln in lines) + '\n'
        driver = self._driver(args, modname)
        stdins = [f'{n} {m} {sd}\n' for n, m, sd in ((4, 3, 1), (7, 2, 5), (1, 1, 2), (5, 5, 9))]
        if f.get('mixed_case'):
            units = _mixed_case(units, rng)
            self.features.add('mixed_case')
        return Case(units=units, driver=driver, stdins=stdins, features=set(self.features),
                    meta={'flags': {k: v for k, v in f.items()}}, modname=modname)

    def _driver(self, args, modname):
        rk = self.rk
        L = ['program main']
        if self.flags.get('kinds_module'):
            L.append('  use kinds_mod, only: jprb')
        L.append(f'  use {modname}')
        L.append('  implicit none')
        L.append('  integer :: n, m, sd, i, j')
        for v in args:
            if v.name in ('n', 'm'):
                continue
            t = {'int': 'integer', 'real': f'real(kind={rk})', 'logical': 'logical'}[v.typ]
            if v.rank:
                L.append(f"  {t}, allocatable :: {v.name}({', '.join(':' for _ in v.dims)})")
            else:
                L.append(f'  {t} :: {v.name}')
        if self.has_derived:
            L.append('  type(ttype) :: t1')
        L.append('  read(*, *) n, m, sd')
        fill = []
        prt = []
        for idx, v in enumerate(args):
            if v.name in ('n', 'm'):
                continue
            c = idx * 3 + 1
            if v.rank == 1:
                lo, up, _ = v.dims[0]
                L.append(f'  allocate({v.name}({lo}:{up}))' if lo != '1' else f'  allocate({v.name}({up}))')
                if v.typ == 'real':
                    fill.append(f'  do i = lbound({v.name}, 1), ubound({v.name}, 1)\n    {v.name}(i) = 3.0_{rk}*sin(real(i*7 + sd*13 + {c}, {rk}))\n  end do')
                    prt.append(f"  do i = lbound({v.name}, 1), ubound({v.name}, 1)\n    print '(A,I0,ES24.15)', '{v.name} ', i, {v.name}(i)\n  end do")
                else:
                    fill.append(f'  do i = lbound({v.name}, 1), ubound({v.name}, 1)\n    {v.name}(i) = mod(i*7 + sd*13 + {c}, 19) - 9\n  end do')
                    prt.append(f"  do i = lbound({v.name}, 1), ubound({v.name}, 1)\n    print '(A,I0,1X,I0)', '{v.name} ', i, {v.name}(i)\n  end do")
            elif v.rank == 2:
                L.append(f'  allocate({v.name}(n, m))')
                fill.append(f'  do j = 1, m\n    do i = 1, n\n      {v.name}(i, j) = 2.0_{rk}*cos(real(i*5 + j*11 + sd*3 + {c}, {rk}))\n    end do\n  end do')
                prt.append(f"  do j = 1, m\n    do i = 1, n\n      print '(A,I0,1X,I0,ES24.15)', '{v.name} ', i, j, {v.name}(i, j)\n    end do\n  end do")
            elif v.typ == 'real':
                fill.append(f'  {v.name} = 1.5_{rk}*sin(real(sd + {c}, {rk}))')
                prt.append(f"  print '(A,ES24.15)', '{v.name} ', {v.name}")
            elif v.typ == 'int':
                fill.append(f'  {v.name} = mod(sd*5 + {c}, 13) - 4')
                prt.append(f"  print '(A,I0)', '{v.name} ', {v.name}")
            else:
                fill.append(f'  {v.name} = mod(sd + {c}, 2) == 0')
                prt.append(f"  print '(A,L1)', '{v.name} ', {v.name}")
        if self.has_derived:
            fill.append(f'  t1%p = 0.75_{rk}*real(sd, {rk})\n  do i = 1, 5\n    t1%q(i) = cos(real(i + sd, {rk}))\n  end do\n  t1%kk = sd + 2')
            prt.append("  print '(A,ES24.15)', 't1%p ', t1%p\n  do i = 1, 5\n    print '(A,I0,ES24.15)', 't1%q ', i, t1%q(i)\n  end do\n  print '(A,I0)', 't1%kk ', t1%kk")
        L += fill
        names = [v.name for v in args] + (['t1'] if self.has_derived else [])
        L.append(f"  call kern({', '.join(names)})")
        L += prt
        L.append('end program main')
        return '\n'.join(L) + '\n'


_KEYWORDS = ['subroutine', 'module', 'integer', 'real', 'logical', 'intent', 'end', 'do', 'if', 'then', 'else',
             'call', 'select', 'case', 'where', 'elsewhere', 'associate', 'function', 'result', 'contains',
             'implicit', 'none', 'use', 'only', 'while', 'cycle', 'exit', 'print', 'type', 'kind']


def _mixed_case(text, rng):
    """randomly upper-case keywords and identifiers outside strings and comments"""
    import re
    out = []
    for line in text.split('\n'):
        code, sep, com = line.partition('!')
        if "'" in code:
            out.append(line)
            continue

        def sub(mo):
            w = mo.group(0)
            r = rng.random()
            if r < 0.3:
                return w.upper()
            if r < 0.4:
                return w.capitalize()
            return w
        code = re.sub(r'(?<![\w.])[A-Za-z_]\w*(?![\w.]*\.)', sub, code)
        out.append(code + sep + com)
    return '\n'.join(out)
