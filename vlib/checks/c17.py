"""C17 -- clone of Subroutine / Module / Sourcefile is an independent, correctly scoped copy."""
# pylint: disable=import-outside-toplevel,broad-except
import re
import traceback

from vlib import corpus
from vlib import unitsnap as us
from vlib.core import sighash, CaseTimeout
from vlib.fgenlab import ProgGen
from vlib.hostilegen import HostileGen, pick_flags

PID = 'C17'
LEVEL = 'exploration'
TECHNIQUE = 'state-snapshot monitor over random clone + edit histories (both copies observed after every edit)'
LEVEL_TEXT = ('For generated and repository program units, the real clone() of Sourcefile / Module / Subroutine is followed by '
              'random edit histories on either copy; after cloning and after every edit the generated code and all symbol '
              'tables of both copies are snapshotted: the clone must equal the original, every symbol of the clone must be '
              'attached to the clone\'s own scopes and resolve its type there, type links (typedef / procedure) must stay inside '
              'the clone, and an edit of one copy must leave the snapshot of the other bit-identical.')
LEVEL_NOTE = ('Sampling of programs and edit histories, not exhaustive. Observables are fgen output and symbol-table dumps '
              '(intrinsic-procedure cache entries ignored); aliasing that never reaches either is not seen. Edits use public '
              'API only (attribute setters, Section.append/prepend, Transformer / SubstituteExpressions with and without '
              'inplace, symbol-table updates, rescope_symbols, two utility transformations).')
RULE = ('Case = one FP-parsed source (50 % fgenlab modules with kernel/helpers/internal procedures, 42 % hostilegen files with '
        'imports, generics, internal procedures, 8 % repository sources; derived types and INTERFACE blocks only in 12 % slices '
        'each because of known findings), up to 2 rounds: pick a target (Sourcefile, Module, '
        'module procedure, free or internal routine), clone it, check equality/scoping/links, then apply 6 (quick) / 12 (thorough) '
        'random edits to either copy (rename unit, rename variable, re-type via symbol table or variable, append/prepend/remove/'
        'replace body nodes with and without inplace, add/remove variables, typedef edits, contained-routine edits, import/spec '
        'edits, rescope, resolve_associates, lower-casing, re-clone), observing both copies after each. Non-trivial = clone made, '
        '>= 3 edits changed the edited copy; distinct = hash of source + target + edit history.')
CASES = {'quick': 400, 'thorough': 5000}
MIN_NONTRIVIAL = {'quick': 200, 'thorough': 2500}
ANCHORS = ['loki/program_unit.py', 'loki/subroutine.py', 'loki/module.py', 'loki/sourcefile.py', 'loki/types/scope.py']
REQUIRED_REACH = ['clone', 'rescope_symbols']
REQUIRED_COUNTERS = {'clones': 40, 'independence_checks': 150, 'symbols_scope_checked': 3000, 'effective_edits': 100}
ASSUMPTIONS = ['fgen output and symbol-table dumps (names, types, kinds, shapes, links) are the observable state of a copy',
               'table entries of intrinsic procedures and of derived-type members (a%b) are lookup caches and are ignored',
               'links of imported symbols to other program units are outside the cloned scope chain and not required to be retargeted']
BUDGET_S = {'quick': 300, 'thorough': 2400}
CASE_TIMEOUT_S = 150

# Derived types and interface blocks are confined to slices because of the known findings
# clone:link-to-original:DerivedType, clone:scope:foreign-scope:DerivedTypeSymbol and clone:interface-body-shared
# (they would otherwise fire in most cases and mask other violations).
def pick_slice(rng):
    r = rng.random()
    if r < 0.70:
        return set()
    if r < 0.82:
        return {'derived'}
    if r < 0.94:
        return {'interfaces'}
    return {'derived', 'interfaces'}


def make_source(rng):
    r = rng.random()
    sl = pick_slice(rng)
    if r < 0.50:
        flags = {'derived': 'derived' in sl, 'mixed_case': rng.random() < 0.2,
                 'max_stmts': rng.choice([5, 8, 12]), 'io_in_kernel': rng.random() < 0.1,
                 'kinds_module': rng.random() < 0.7, 'optional_args': rng.random() < 0.2}
        case = ProgGen(rng, flags).generate()
        return 'fgenlab', case.units, {'fgenlab'} | {f for f in case.features}, sl - {'interfaces'}
    if r < 0.92:
        flags = pick_flags(rng, risky_prob=0.0)
        if 'derived' not in sl:
            flags['typebound'] = False
            flags['extends'] = False
            flags['assoc'] = False
            flags['no_typedefs'] = True
        if 'interfaces' not in sl:
            flags['interfaces'] = False
            flags['interface_in_internal'] = False
        flags['size'] = rng.choice([1, 1, 2])
        flags['line_budget'] = 150
        case = HostileGen(rng, flags).generate()
        return 'hostile', case.text, {'hostile'} | set(case.features), sl
    files = corpus.list_files()
    f = rng.choice(files)
    text = corpus.read(f)
    low = text.lower()
    sl = set()
    if 'end type' in low or 'endtype' in low or 'type(' in low or 'class(' in low:
        sl.add('derived')
    if 'interface' in low:
        sl.add('interfaces')
    return 'corpus', text, {'corpus'}, sl


# --------------------------------------------------------------------------- snapshots

def strip_intrinsics(snap):
    """Drop lookup caches from the table dumps: intrinsic procedures and derived-type member entries ('a%b'), both of
    which Loki creates lazily on look-up (also in the copy that is merely read)."""
    for p, d in snap['tables'].items():
        for k in [k for k, v in d.items()
                  if '%' in k or ('intrinsic=True' in v and v.startswith('<dtype=ProcedureType('))
                  or v == '<dtype=BasicType.DEFERRED>']:
            # a bare DEFERRED entry says as much as no entry (rescoping inserts such defaults for imported names)
            del d[k]
        for k, v in d.items():
            if 'imported=True' in v:
                # imported symbols link to objects of other program units (not part of the cloned scope chain): their
                # names / links are rendered anonymously so that edits of those other units do not show up here
                v = re.sub(r'(ProcedureType|DerivedType)\([^;]*;', r'\1(*;', v)
                v = re.sub(r'fn=(True|False); ', '', v)            # is_function / return type are read through the link
                v = re.sub(r'; returns=[^;)>]*', '', v)
                d[k] = re.sub(r'(own|ext):[^;,)>]*', 'lnk', v)
    return snap


def snapshot(obj):
    return strip_intrinsics(us.snapshot(obj))


def unlinked(snap):
    """Snapshot with own:/ext: link rendering removed (for clone == original right after cloning)."""
    import re
    tabs = {}
    for p, d in snap['tables'].items():
        tabs[p] = {k: re.sub(r'(own|ext):[^;,)>]*', 'L', v) for k, v in d.items()}
    return {'code': snap['code'], 'tables': tabs}


# --------------------------------------------------------------------------- targets

def list_targets(sf):
    from loki import Module, Subroutine
    out = [('sourcefile', None)]
    for p, s in us.scope_tree(sf):
        if isinstance(s, Module):
            out.append(('module', p))
        elif isinstance(s, Subroutine):
            out.append(('routine', p))
    return out


def resolve(sf, path):
    if path is None:
        return sf
    for p, s in us.scope_tree(sf):
        if p == path:
            return s
    return None


def sub_units(obj):
    from loki.program_unit import ProgramUnit
    return [(p, s) for p, s in us.scope_tree(obj) if isinstance(s, ProgramUnit)]


def routines_in(obj):
    from loki import Subroutine
    return [(p, s) for p, s in us.scope_tree(obj) if isinstance(s, Subroutine)]


# --------------------------------------------------------------------------- edits
# An edit descriptor is a json-able dict resolved against a copy at application time, so that the same history can be
# replayed on a freshly parsed control object.

EDIT_KINDS = ['rename_unit', 'rename_var', 'rename_var_inplace', 'retype_table', 'retype_var', 'body_append',
              'body_prepend', 'body_remove', 'body_remove_inplace', 'replace_rhs', 'replace_rhs_inplace', 'add_var',
              'remove_var', 'typedef_retype', 'typedef_remove_decl', 'member_edit', 'add_import', 'rescope',
              'resolve_associates', 'lower_case', 'sf_comment', 'reclone', 'drop_member', 'subst_spec']


def random_edit(rng, k):
    return {'kind': rng.choice(EDIT_KINDS), 'u': rng.random(), 'v': rng.random(), 'w': rng.random(), 'n': k}


def _pick(seq, x):
    seq = list(seq)
    if not seq:
        return None
    return seq[min(len(seq) - 1, int(x * len(seq)))]


def apply_edit(obj, ed):
    """Apply edit descriptor ``ed`` to copy ``obj``.  Returns (description, path of the edited unit) or None when the
    edit is not applicable."""
    paths = {id(s_): p_ for p_, s_ in us.scope_tree(obj)}
    out = _apply_edit(obj, ed)
    if out is None:
        return None
    desc, unit = out
    return desc, paths.get(id(unit), '')


def retype_decl(r, v, newtype_of):
    """Re-type all symbols that share the declaration of ``v`` (a declaration prints one type for all its symbols)."""
    from loki import FindNodes
    from loki.ir import nodes as ir
    names = [v.name]
    for d in FindNodes(ir.VariableDeclaration).visit(r.spec):
        if any(x.name.lower() == v.name.lower() for x in d.symbols):
            names = [x.name for x in d.symbols]
    return names


def _apply_edit(obj, ed):
    from loki import Module, Subroutine, Sourcefile, FindNodes, FindVariables, Transformer, SubstituteExpressions
    from loki.ir import nodes as ir
    from loki.expression import symbols as sym
    from loki.types import BasicType, SymbolAttributes
    kind, n = ed['kind'], ed['n']
    routines = [s for _, s in routines_in(obj)]
    units = [s for _, s in sub_units(obj)]
    r = _pick(routines, ed['u'])

    def local_vars(rt):
        args = {a.name.lower() for a in rt.arguments}
        return [v for v in rt.variables if v.name.lower() not in args and '%' not in v.name]

    if kind == 'rename_unit':
        u = _pick(units, ed['u'])
        if u is None:
            return None
        u.name = f'{u.name}_r{n}'
        return f'rename unit -> {u.name}', u
    if kind in ('rename_var', 'rename_var_inplace', 'subst_spec'):
        if r is None:
            return None
        v = _pick(local_vars(r), ed['v'])
        if v is None:
            return None
        new = f'zq{n}_{v.name}'
        old = v.name.lower()
        vmap = {}
        for x in FindVariables(unique=False).visit((r.spec, r.body)):
            if x.name.lower() == old:
                vmap[x] = x.clone(name=new, type=x.type)
        if not vmap:
            return None
        inplace = kind == 'rename_var_inplace'
        r.spec = SubstituteExpressions(vmap, inplace=inplace).visit(r.spec)
        if kind != 'subst_spec':
            r.body = SubstituteExpressions(vmap, inplace=inplace).visit(r.body)
        return f'{kind} {old}->{new} in {r.name}', r
    if kind == 'retype_table':
        if r is None:
            return None
        v = _pick(r.variables, ed['v'])
        if v is None:
            return None
        t = r.symbol_attrs.lookup(v.name, recursive=False)
        if t is None:
            return None
        newd = BasicType.LOGICAL if t.dtype != BasicType.LOGICAL else BasicType.INTEGER
        for name in retype_decl(r, v, None):
            tt = r.symbol_attrs.lookup(name, recursive=False)
            if tt is not None:
                r.symbol_attrs[name] = tt.clone(dtype=newd, kind=None)
        return f'retype (table) {v.name} in {r.name}', r
    if kind == 'retype_var':
        if r is None:
            return None
        v = _pick(r.variables, ed['v'])
        if v is None or v.type is None:
            return None
        vm = r.variable_map
        for name in retype_decl(r, v, None):
            x = vm.get(name)
            if x is not None and x.type is not None:
                x.type = x.type.clone(intent=None, target=True)
        return f'retype (var.type) {v.name} in {r.name}', r
    if kind in ('body_append', 'body_prepend'):
        if r is None or r.body is None:
            return None
        if ed['w'] < 0.5:
            node = ir.Comment(text=f'! edit {n}')
        else:
            v = _pick([x for x in r.variables if not getattr(x, 'shape', None)], ed['v'])
            if v is None:
                return None
            node = ir.Assignment(lhs=v.clone(dimensions=None) if hasattr(v, 'dimensions') else v,
                                 rhs=sym.IntLiteral(n))
        if kind == 'body_append':
            r.body.append(node)
        else:
            r.body.prepend(node)
        return f'{kind} in {r.name}', r
    if kind in ('body_remove', 'body_remove_inplace', 'replace_rhs', 'replace_rhs_inplace'):
        if r is None or r.body is None:
            return None
        a = _pick(FindNodes(ir.Assignment).visit(r.body), ed['v'])
        if a is None:
            return None
        inplace = kind.endswith('inplace')
        if kind.startswith('body_remove'):
            mapper = {a: None}
        else:
            mapper = {a: a.clone(rhs=sym.Sum((a.rhs, sym.IntLiteral(n))))}
        r.body = Transformer(mapper, inplace=inplace).visit(r.body)
        return f'{kind} in {r.name}', r
    if kind == 'add_var':
        if r is None:
            return None
        nv = sym.Variable(name=f'nv{n}', type=SymbolAttributes(BasicType.REAL), scope=r)
        r.variables += (nv,)
        return f'add_var nv{n} in {r.name}', r
    if kind == 'remove_var':
        if r is None:
            return None
        v = _pick(local_vars(r), ed['v'])
        if v is None:
            return None
        r.variables = tuple(x for x in r.variables if x.name.lower() != v.name.lower())
        return f'remove_var {v.name} in {r.name}', r
    if kind in ('typedef_retype', 'typedef_remove_decl'):
        mods = [u for u in units if isinstance(u, Module) and u.typedefs]
        m = _pick(mods, ed['u'])
        if m is None:
            return None
        td = _pick(m.typedefs, ed['v'])
        if kind == 'typedef_retype':
            v = _pick(td.variables, ed['w'])
            if v is None:
                return None
            for d in td.body:
                if isinstance(d, ir.VariableDeclaration) and any(x.name.lower() == v.name.lower() for x in d.symbols):
                    for x in d.symbols:
                        td.symbol_attrs[x.name] = x.type.clone(dtype=BasicType.LOGICAL, kind=None)
            return f'typedef_retype {td.name}%{v.name}', m
        decls = [d for d in td.body if isinstance(d, ir.VariableDeclaration)]
        d = _pick(decls, ed['w'])
        if d is None or len(decls) < 2:
            return None
        m.spec = Transformer({d: None}).visit(m.spec)
        return f'typedef_remove_decl in {td.name}', m
    if kind == 'member_edit':
        hosts = [u for u in units if u.contains is not None and any(isinstance(c, Subroutine) for c in u.contains.body)]
        h = _pick(hosts, ed['u'])
        if h is None:
            return None
        m = _pick([c for c in h.contains.body if isinstance(c, Subroutine)], ed['v'])
        if m.body is None:
            return None
        m.body.prepend(ir.Comment(text=f'! member edit {n}'))
        m.name = f'{m.name}_m{n}'
        return f'member_edit {m.name}', m
    if kind == 'add_import':
        u = _pick(units, ed['u'])
        if u is None or u.spec is None:
            return None
        s = sym.Variable(name=f'zsym{n}', scope=u)
        u.spec.prepend(ir.Import(module=f'zmod{n}', symbols=(s,)))
        return f'add_import in {u.name}', u
    if kind == 'rescope':
        u = _pick(units, ed['u'])
        if u is None:
            return None
        u.rescope_symbols()
        return f'rescope {u.name}', u
    if kind == 'resolve_associates':
        from loki.transformations.sanitise import do_resolve_associates
        if r is None or not FindNodes(ir.Associate).visit(r.body):
            return None
        do_resolve_associates(r)
        return f'resolve_associates {r.name}', r
    if kind == 'lower_case':
        from loki.transformations.utilities import convert_to_lower_case
        if r is None:
            return None
        convert_to_lower_case(r)
        return f'lower_case {r.name}', r
    if kind == 'sf_comment':
        if not isinstance(obj, Sourcefile):
            return None
        obj.ir.prepend(ir.Comment(text=f'! file edit {n}'))
        return 'sf_comment', obj
    if kind == 'reclone':
        c2 = obj.clone()
        # modify the throw-away copy: must not reach either tracked copy
        for _, rr in routines_in(c2)[:2]:
            if rr.body is not None:
                rr.body.prepend(ir.Comment(text=f'! reclone edit {n}'))
            rr.name = rr.name + '_c2'
        return 'reclone+edit third copy', obj
    if kind == 'drop_member':
        hosts = [u for u in units if u.contains is not None and
                 sum(isinstance(c, Subroutine) for c in u.contains.body) >= 2]
        h = _pick(hosts, ed['u'])
        if h is None:
            return None
        m = _pick([c for c in h.contains.body if isinstance(c, Subroutine)], ed['v'])
        h.contains = h.contains.clone(body=tuple(c for c in h.contains.body if c is not m))
        return f'drop_member {m.name} from {h.name}', h
    return None


# --------------------------------------------------------------------------- the case

def do_clone(sf, tkind, tpath):
    return resolve(sf, tpath).clone()


def shared_interface_bodies(orig, clone):
    """Program units inside INTERFACE blocks of the clone that are the very same objects as in the original."""
    o = {id(s): p for p, s in us.scope_tree(orig) if '/Interface:' in p}
    return [p for p, s in us.scope_tree(clone) if '/Interface:' in p and id(s) in o]


def check_clone(orig, clone, res, witness, tkind, pristine):
    """Checks right after cloning.  Returns snapshots (orig, clone).  ``pristine``: the original has not been edited
    before (symbol tables are only compared then: edits such as renaming a unit legitimately leave stale entries in
    the original that a clone re-registers)."""
    cnt = res['counters']
    s_o = snapshot(orig)
    s_c = snapshot(clone)
    a, b = unlinked(s_o), unlinked(s_c)
    if not pristine:
        a, b = {'code': a['code'], 'tables': {}}, {'code': b['code'], 'tables': {}}
    cnt['clone_equality_checks'] = cnt.get('clone_equality_checks', 0) + 1
    if a != b:
        kinds = us.diff_kinds(a, b)
        res['violations'].append({'key': f'clone:differs-from-original:{tkind}:{"+".join(kinds)}',
                                  'msg': f'clone of {tkind} differs from the original: {us.snap_diff(a, b)[:4]}',
                                  'witness': dict(witness, diff=us.snap_diff(a, b))})
    if tkind == 'sourcefile' and getattr(clone, 'ir', None) is not None and clone.ir is orig.ir:
        res['violations'].append({'key': 'clone:empty-sourcefile-ir-shared',
                                  'msg': 'Sourcefile.clone() of a file without program units shares the (empty) ir Section object',
                                  'witness': dict(witness)})
        res['_ir_shared'] = True
    shared = shared_interface_bodies(orig, clone)
    cnt['interface_bodies_checked'] = cnt.get('interface_bodies_checked', 0) + \
        sum(1 for p, _ in us.scope_tree(clone) if '/Interface:' in p)
    if shared:
        res['violations'].append({'key': 'clone:interface-body-shared',
                                  'msg': f'routines in INTERFACE blocks are the same objects in clone and original: {shared[:3]}',
                                  'witness': dict(witness, shared=shared)})
    # structure: the same IR sections exist in both copies (an empty Section must not turn into None)
    from loki.program_unit import ProgramUnit
    ou = {p: x for p, x in us.scope_tree(orig) if isinstance(x, ProgramUnit)}
    lost = []
    for p, x in us.scope_tree(clone):
        if isinstance(x, ProgramUnit) and p in ou:
            for part in ('spec', 'body', 'contains'):
                if hasattr(x, part) and (getattr(ou[p], part) is None) != (getattr(x, part) is None):
                    lost.append(f'{p}.{part}: {getattr(ou[p], part)!r} -> {getattr(x, part)!r}')
            cnt['unit_structure_checks'] = cnt.get('unit_structure_checks', 0) + 1
    if lost:
        res['violations'].append({'key': 'clone:empty-section-becomes-None',
                                  'msg': f'IR sections of the clone differ in presence: {lost[:3]}',
                                  'witness': dict(witness, sections=lost)})
        res['_empty_section_none'] = True
    foreign = us.own_map(us.scope_tree(orig))
    probs, n = us.scope_chain_problems(clone, foreign)
    cnt['symbols_scope_checked'] = cnt.get('symbols_scope_checked', 0) + n
    for k in sorted({p[0] for p in probs}):
        msgs = [m for kk, m in probs if kk == k]
        res['violations'].append({'key': f'clone:scope:{k}', 'msg': f'{tkind}: {msgs[:3]}',
                                  'witness': dict(witness, problems=msgs)})
    if pristine:
        lprobs, n = us.link_problems(clone, foreign)
        cnt['links_checked'] = cnt.get('links_checked', 0) + n
        for k in sorted({p[0] for p in lprobs}):
            msgs = [m for kk, m in lprobs if kk == k]
            msgs = [m for m in msgs if '%' not in m.split(' links to ')[0]]       # member look-up caches
            iface = [m for m in msgs if '/Interface:' in m.split(' links to ')[1]]
            if iface and shared:
                msgs = [m for m in msgs if m not in iface]      # consequence of clone:interface-body-shared
            groups = {}
            for m in msgs:
                scope_kind = m.split('[')[0].rsplit('/', 1)[-1].split(':')[0]
                kk = f'clone:link-to-original:{k}' + (f':in-{scope_kind}-table' if k == 'ProcedureType' else '')
                groups.setdefault(kk, []).append(m)
            for kk, msgs in sorted(groups.items()):
                res['violations'].append({'key': kk,
                                          'msg': f'{tkind}: type links of the clone point into the original: {msgs[:3]}',
                                          'witness': dict(witness, problems=msgs)})
    return s_o, s_c


def replay_control(text, tpath, history, side):
    """Apply the edits of one side to a freshly parsed, never-cloned object.  True if the last edit raises there too."""
    from loki import Sourcefile
    sf = Sourcefile.from_source(text)
    obj = resolve(sf, tpath)
    if obj is None:
        return True
    mine = [e for s, e in history if s == side]
    for e in mine[:-1]:
        try:
            apply_edit(obj, e)
        except CaseTimeout:
            raise
        except Exception:
            return True
    try:
        apply_edit(obj, mine[-1])
    except CaseTimeout:
        raise
    except Exception:
        return True
    return False


def run_case(idx, rng, tier, ctx):
    from loki import Sourcefile
    skind, text, feats, sl = make_source(rng)
    res = {'sig': None, 'nontrivial': False, 'violations': [], 'inconclusive': None,
           'features': sorted({'src-' + skind} | {'slice-' + x for x in sl} | ({'slice-plain'} if not sl else set())),
           'counters': {}}
    keep = []          # strong references: weakly referenced procedures must not disappear between snapshots
    cnt = res['counters']
    try:
        sf = Sourcefile.from_source(text)
    except CaseTimeout:
        raise
    except Exception as e:
        res['sig'] = sighash(text)
        res['features'].append('fp-parse-failed')
        if skind != 'corpus':
            res['inconclusive'] = f'FP parse of generated source failed: {type(e).__name__}: {str(e)[:200]}'
        return res
    nedits = 6 if tier == 'quick' else 12
    sig_parts = [text]
    effective = 0
    samples = []
    stale_prone = False
    for rnd in range(2):
        if stale_prone:
            break      # renaming / dropping units leaves stale table entries in the original: no second round on it
        targets = list_targets(sf)
        # prefer program units over the whole file
        weights = {'sourcefile': 2, 'module': 4, 'routine': 1}
        pool = [t for t in targets for _ in range(weights[t[0]])]
        tkind, tpath = rng.choice(pool)
        orig = resolve(sf, tpath)
        if orig is None:
            continue
        witness = {'source': text, 'target': [tkind, tpath], 'round': rnd}
        pristine = rnd == 0
        try:
            keep.extend(x for _, x in us.scope_tree(orig))
            before = snapshot(orig)
        except CaseTimeout:
            raise
        except Exception:
            res['features'].append('snapshot-exception')
            cnt['snapshot_exceptions'] = cnt.get('snapshot_exceptions', 0) + 1
            continue
        try:
            clone = orig.clone()
            cnt['clones'] = cnt.get('clones', 0) + 1
            keep.extend(x for _, x in us.scope_tree(clone))
        except CaseTimeout:
            raise
        except Exception as e:
            res['violations'].append({'key': f'clone:exception:{tkind}:{type(e).__name__}',
                                      'msg': f'clone() raised {type(e).__name__}: {str(e)[:200]}',
                                      'witness': dict(witness, traceback=traceback.format_exc()[-1500:])})
            continue
        res['features'].append('target-' + tkind)
        if tkind == 'routine' and getattr(orig, 'parent', None) is not None:
            # clone() of a contained routine registers the clone under the same name in the (shared) enclosing scope,
            # which lies outside the cloned unit: no second round on objects that contain this routine
            stale_prone = True
        try:
            s_o, s_c = check_clone(orig, clone, res, witness, tkind, pristine)
        except CaseTimeout:
            raise
        except Exception as e:
            res['violations'].append({'key': f'clone:observation-exception:{tkind}:{type(e).__name__}',
                                      'msg': f'observing the fresh clone raised {type(e).__name__}: {str(e)[:200]}',
                                      'witness': dict(witness, traceback=traceback.format_exc()[-1500:])})
            continue
        if before != s_o:
            kinds = us.diff_kinds(before, s_o)
            res['violations'].append({'key': f'clone:changes-original:{tkind}:{"+".join(kinds)}',
                                      'msg': f'clone() changed the original: {us.snap_diff(before, s_o)[:4]}',
                                      'witness': dict(witness, diff=us.snap_diff(before, s_o))})
        copies = {'orig': orig, 'clone': clone}
        snaps = {'orig': s_o, 'clone': s_c}
        history = []
        for k in range(nedits):
            side = rng.choice(['orig', 'clone'])
            other = 'clone' if side == 'orig' else 'orig'
            ed = random_edit(rng, k + 10 * rnd)
            epath = ''
            try:
                out = apply_edit(copies[side], ed)
                desc, epath = out if out is not None else (None, '')
                keep.extend(x for _, x in us.scope_tree(copies[side]))
            except CaseTimeout:
                raise
            except Exception as e:
                history.append((side, ed))
                cnt['edit_exceptions'] = cnt.get('edit_exceptions', 0) + 1
                res['features'].append(f'edit-exception-{ed["kind"]}')
                # decide with a never-cloned control object whether the exception is caused by cloning
                try:
                    also = replay_control(text, tpath, history, side) if rnd == 0 else True
                except CaseTimeout:
                    raise
                except Exception:
                    also = True
                if not also:
                    key = f'clone:edit-raises-only-after-clone:{ed["kind"]}:{type(e).__name__}'
                    if res.get('_empty_section_none') and "'NoneType' object" in str(e):
                        key = 'clone:edit-raises-only-after-clone:empty-section-None'
                    res['violations'].append({'key': key,
                                              'msg': f'{ed["kind"]} on the {side} raised {type(e).__name__}: {str(e)[:160]} '
                                                     f'but not on a never-cloned object with the same history',
                                              'witness': dict(witness, history=history, traceback=traceback.format_exc()[-1200:])})
                history.pop()
                # state of the edited copy is undefined now: re-baseline it, but the other copy must still be unchanged
                desc = f'exception in {ed["kind"]}'
            if desc is None:
                continue
            history.append((side, ed))
            if side == 'orig' and ed['kind'] in ('rename_unit', 'member_edit', 'drop_member'):
                stale_prone = True
            sig_parts.append(f'{tkind}:{tpath}:{side}:{ed["kind"]}')
            res['features'].append('edit-' + ed['kind'])
            try:
                now_other = snapshot(copies[other])
                now_side = snapshot(copies[side])
            except CaseTimeout:
                raise
            except Exception as e:
                res['features'].append('snapshot-exception')
                cnt['snapshot_exceptions'] = cnt.get('snapshot_exceptions', 0) + 1
                break
            cnt['independence_checks'] = cnt.get('independence_checks', 0) + 1
            if now_side != snaps[side]:
                effective += 1
                cnt['effective_edits'] = cnt.get('effective_edits', 0) + 1
            if now_other != snaps[other]:
                kinds = us.diff_kinds(snaps[other], now_other)
                key = f'clone:edit-leaks:{ed["kind"]}:{"+".join(kinds)}'
                if '/Interface:' in epath or (ed['kind'] == 'reclone' and 'interfaces' in sl):
                    key = 'clone:edit-leaks:interface-body'      # edited routine lives in an INTERFACE block
                if res.get('_ir_shared') and ed['kind'] == 'sf_comment':
                    key = 'clone:edit-leaks:empty-sourcefile-ir-shared'
                res['violations'].append({
                    'key': key,
                    'msg': f'{desc} on the {side} of a {tkind} changed the {other}: {us.snap_diff(snaps[other], now_other)[:3]}',
                    'witness': dict(witness, history=[(s, e['kind']) for s, e in history], edit=ed,
                                    diff=us.snap_diff(snaps[other], now_other))})
            snaps[side], snaps[other] = now_side, now_other
        # final scoping check of both copies: each must live on its own scopes
        for side in ('orig', 'clone'):
            other = 'clone' if side == 'orig' else 'orig'
            try:
                foreign = us.own_map(us.scope_tree(copies[other]))
                probs, n = us.scope_chain_problems(copies[side], foreign)
            except CaseTimeout:
                raise
            except Exception:
                continue
            cnt['symbols_scope_checked'] = cnt.get('symbols_scope_checked', 0) + n
            for kk in sorted({p[0] for p in probs if p[0].startswith('foreign-scope')}):
                msgs = [m for k2, m in probs if k2 == kk]
                res['violations'].append({'key': f'clone:scope-after-edits:{kk}', 'msg': f'{tkind} {side}: {msgs[:3]}',
                                          'witness': dict(witness, history=[(s, e['kind']) for s, e in history], problems=msgs)})
        samples.append({'target': [tkind, tpath], 'edits': [f'{s}:{e["kind"]}' for s, e in history]})
    res.pop('_empty_section_none', None)
    res.pop('_ir_shared', None)
    res['sig'] = sighash(sig_parts)
    res['nontrivial'] = cnt.get('clones', 0) >= 1 and effective >= 3
    res['sample'] = {'source': skind, 'lines': text.count('\n'), 'rounds': samples}
    res['features'] = sorted(set(res['features']))
    return res
