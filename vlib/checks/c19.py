"""C19 -- REGEX frontend discovers what the FP frontend discovers, independent of incremental request order."""
# pylint: disable=import-outside-toplevel,broad-except
import re
import traceback

from vlib import corpus, relsum
from vlib.core import sighash, CaseTimeout
from vlib.fgenlab import ProgGen
from vlib.hostilegen import HostileGen, pick_flags, RISKY_FLAGS

PID = 'C19'
LEVEL = 'exploration'
TECHNIQUE = 'differential execution (REGEX vs FP frontend vs generator ground truth) over layout-hostile sources and request histories'
LEVEL_TEXT = ('Every generated layout-hostile source file (and repository source) is parsed by the real REGEX and FP frontends; '
              'the relational summaries (unit tree, imports with renames, typedefs with bindings/generics/finals, interfaces, '
              'call targets per unit) are compared as case-folded multisets, and random incremental '
              'make_complete(frontend=REGEX, parser_classes=...) histories are compared with the one-shot parse.')
LEVEL_NOTE = ('Sampling, not exhaustive: holds for the generated layouts only. The FP summary is cross-checked against the '
              'generator model; disagreement there makes the case inconclusive. Features known to break the REGEX frontend are '
              'confined to a 25 % slice (one gated feature per case) and reported as known findings.')
RULE = ('Case = one source file: 80 % from the layout-hostile generator vlib/hostilegen.py (1-3 modules + free routines; '
        'continuation lines in USE/CALL/headers with and without leading &, trailing comments and comment lines between '
        'continuation lines, ;-joined statements, inline IF(...) CALL with nested parentheses, keywords in strings and comments, '
        'labels, mixed case, END without name / ENDSUBROUTINE, function prefixes, MODULE PROCEDURE, type-bound procedures, '
        'generics, renamed and operator imports, keyword-like identifiers, tabs, internal procedures), 10 % fgenlab programs '
        'with layout flags, 10 % Fortran sources shipped in the repository. Each file: FP parse, REGEX one-shot parse, and '
        '3 (quick) / 6 (thorough) random histories of REGEX parses with partial parser classes completed incrementally on '
        'the Sourcefile or on single units. Non-trivial = FP parse succeeded, agrees with the generator model, the file has '
        '>= 2 program units and >= 1 call or import; distinct = hash of the file text.')
CASES = {'quick': 560, 'thorough': 8000}
MIN_NONTRIVIAL = {'quick': 280, 'thorough': 4000}
ANCHORS = ['loki/frontend/regex.py', 'loki/program_unit.py', 'loki/sourcefile.py']
REQUIRED_REACH = ['parse_regex_source', 'make_complete', 'match_block_statement_candidates']
REQUIRED_COUNTERS = {'units_compared': 150, 'calls_compared': 150, 'imports_compared': 20, 'histories': 60,
                     'bindings_compared': 15, 'interfaces_compared': 15}
ASSUMPTIONS = ['The FP frontend result is the reference; it must agree with the generator ground-truth model, else the case is inconclusive',
               'Generated files are valid Fortran (the generator was validated with gfortran -fsyntax-only during development)',
               'regex-frontend-timeout is lowered from 30 s to 10 s to bound the cost of catastrophic backtracking cases']
BUDGET_S = {'quick': 300, 'thorough': 2400}
CASE_TIMEOUT_S = 200
MAX_INCONCLUSIVE_FRAC = 0.05

# gated features whose effect is structural (units swallowed / lost): all differences of such a case share one key
STRUCTURAL = {'bare_end', 'prefix_special', 'nested_contains_last', 'string_type_keyword', 'kw_binding_nocolon', 'kw_unit_name'}


def setup_worker(tier, ctx):
    from loki import config
    config['regex-frontend-timeout'] = 10


def text_traits(text):
    """Gated traits recognisable in arbitrary source text (for files without a generator model)."""
    t = set()
    if re.search(r'^\s*use\s*,\s*(non_)?intrinsic', text, re.I | re.M):
        t.add('use_nature')
    if re.search(r'^\s*use\s*::', text, re.I | re.M):
        t.add('use_double_colon')
    if re.search(r'^\s*procedure\s*\(', text, re.I | re.M):
        t.add('deferred_binding')
    if re.search(r'^\s*final\b', text, re.I | re.M):
        t.add('final_binding')
    if re.search(r'^\s*generic\b[^\n]*\b(operator|assignment)\s*\(', text, re.I | re.M):
        t.add('generic_operator')
    if re.search(r'^\s*procedure\s*,[^\n:]*\(', text, re.I | re.M):
        t.add('binding_attr_paren')
    return t


def make_source(idx, rng):
    r = rng.random()
    if r < 0.80:
        flags = pick_flags(rng, risky_prob=0.25)
        case = HostileGen(rng, flags).generate()
        return {'kind': 'hostile', 'text': case.text, 'model': case.model, 'features': set(case.features),
                'risky': set(case.risky)}
    if r < 0.90:
        flags = {'mixed_case': rng.random() < 0.5, 'continuation': rng.random() < 0.5, 'semicolons': rng.random() < 0.5,
                 'long_expr': rng.random() < 0.3, 'comments': True, 'max_stmts': rng.choice([6, 10, 14])}
        case = ProgGen(rng, flags).generate()
        return {'kind': 'fgenlab', 'text': case.units, 'model': None,
                'features': {'fgenlab'} | {'fgenlab-' + k for k, v in flags.items() if v is True}, 'risky': set()}
    files = corpus.list_files()
    f = rng.choice(files)
    text = corpus.read(f)
    return {'kind': 'corpus', 'text': text, 'model': None, 'features': {'corpus'}, 'risky': text_traits(text),
            'file': f}


def attribution(src):
    return '+'.join(sorted(src['risky'])) if src['risky'] else 'plain'


def diff_keys(diffs, src, prefix='regex'):
    """Map differences to mechanism keys."""
    att = attribution(src)
    out = {}
    for cat, path, item in diffs:
        if src['risky'] & STRUCTURAL:
            key = f'{prefix}:unit-structure:{att}'
        else:
            key = f'{prefix}:{cat}:{att}'
        out.setdefault(key, []).append((cat, path, item))
    return out


def all_classes():
    from loki.frontend.regex import RegexParserClass as R
    return [R.ProgramUnitClass, R.InterfaceClass, R.ImportClass, R.TypeDefClass, R.DeclarationClass, R.CallClass,
            R.PragmaClass]


def random_classes(rng, pmin=0):
    from loki.frontend.regex import RegexParserClass as R
    cls = R.EmptyClass
    names = []
    for c in all_classes():
        if rng.random() < 0.45:
            cls = cls | c
            names.append(c.name)
    if not names and pmin:
        c = rng.choice(all_classes())
        cls = cls | c
        names.append(c.name)
    return cls, names


def run_history(text, rng, direct_all_summary, check_intermediate):
    """
    One incremental history.  Returns (diffs vs one-shot AllClasses parse, intermediate diffs, log, nsteps).
    """
    from loki import Sourcefile
    from loki.frontend import REGEX
    from loki.frontend.regex import RegexParserClass as R
    from loki.program_unit import ProgramUnit
    log = []
    p0, names = random_classes(rng)
    # the first request contains ProgramUnitClass except in a 10 % slice (gated: classes requested before the
    # units are discovered are forgotten by Sourcefile.make_complete)
    no_pu_first = rng.random() < 0.10
    if no_pu_first:
        p0 = p0 & ~R.ProgramUnitClass
        names = [n for n in names if n != 'ProgramUnitClass']
    elif 'ProgramUnitClass' not in names:
        p0 = p0 | R.ProgramUnitClass
        names = ['ProgramUnitClass'] + names
    log.append(('from_source', names))
    sf = Sourcefile.from_source(text, frontend=REGEX, parser_classes=p0)
    union = p0
    only_sf_level = True
    nsteps = rng.randint(1, 4)
    inter = []
    for _ in range(nsteps):
        p, names = random_classes(rng, pmin=1)
        units = [n for n in sf.ir.body if isinstance(n, ProgramUnit)]
        if units and rng.random() < 0.35:
            u = rng.choice(units)
            # optionally a contained unit
            subs = [c for c in relsum.child_units(u)]
            if subs and rng.random() < 0.4:
                u = rng.choice(subs)
            log.append(('unit.make_complete', str(u.name), names))
            u.make_complete(frontend=REGEX, parser_classes=p)
            only_sf_level = False
        else:
            log.append(('sf.make_complete', names))
            sf.make_complete(frontend=REGEX, parser_classes=p)
            union = union | p
            if check_intermediate and only_sf_level and rng.random() < 0.5:
                ref = Sourcefile.from_source(text, frontend=REGEX, parser_classes=union)
                d = relsum.compare(relsum.summarize_sourcefile(ref), relsum.summarize_sourcefile(sf))
                if d:
                    inter.append((list(log), d[:6], no_pu_first))
    log.append(('sf.make_complete', ['AllClasses']))
    sf.make_complete(frontend=REGEX, parser_classes=R.AllClasses)
    final = relsum.summarize_sourcefile(sf)
    return relsum.compare(direct_all_summary, final), inter, log, nsteps + 1, no_pu_first


def run_case(idx, rng, tier, ctx):
    from loki import Sourcefile
    from loki.frontend import REGEX, FP
    src = make_source(idx, rng)
    text = src['text']
    res = {'sig': sighash(text), 'nontrivial': False, 'violations': [], 'inconclusive': None,
           'features': sorted(src['features'] | {'src-' + src['kind']} | {'risky-' + r for r in src['risky']}),
           'counters': {}}
    cnt = res['counters']
    # ---- reference: FP
    try:
        fp = Sourcefile.from_source(text, frontend=FP)
        fs = relsum.summarize_sourcefile(fp)
    except CaseTimeout:
        raise
    except Exception as e:
        cnt['fp_parse_failures'] = 1
        res['features'].append('fp-exception-' + type(e).__name__)
        if src['kind'] == 'hostile':
            res['inconclusive'] = f'FP frontend failed on generated file ({type(e).__name__}: {str(e)[:200]}); risky={sorted(src["risky"])}'
        return res     # corpus files that FP cannot read are simply skipped (not non-trivial)
    if src['model'] is not None:
        ms, _tags = relsum.summarize_model(src['model'])
        d = relsum.compare(ms, fs)
        if d:
            res['inconclusive'] = f'generator model and FP frontend disagree: {d[:4]} risky={sorted(src["risky"])}'
            return res
        cnt['model_checks'] = 1
    # ---- REGEX one-shot
    witness_base = {'source': text, 'kind': src['kind'], 'risky': sorted(src['risky']), 'file': src.get('file')}
    try:
        rx = Sourcefile.from_source(text, frontend=REGEX)
        rs = relsum.summarize_sourcefile(rx)
    except CaseTimeout:
        raise
    except Exception as e:
        kind = type(e).__name__ + ('-timeout' if 'timeout' in str(e) else '')
        key = f'regex:exception:{kind}:{attribution(src)}'
        if 'timeout' in str(e) and src['risky'] & STRUCTURAL:
            # the unit patterns do not match the gated construct and backtrack catastrophically: same mechanism as the
            # structural difference of that slice (verified: > 50 CPU s on a 133-line file with a 120 s limit)
            key = f'regex:unit-structure:{attribution(src)}'
        res['violations'].append({'key': key,
                                  'msg': f'REGEX frontend raised {type(e).__name__}: {str(e)[:200]}',
                                  'witness': dict(witness_base, traceback=traceback.format_exc()[-1500:])})
        cnt['regex_exceptions'] = 1
        return res
    diffs = relsum.compare(fs, rs)
    for key, items in diff_keys(diffs, src).items():
        res['violations'].append({'key': key, 'msg': f'REGEX vs FP: {items[:3]} ({len(items)} differences with this key)',
                                  'witness': dict(witness_base, differences=[list(map(str, i)) for i in items[:12]])})
    cnt['units_compared'] = len(fs)
    cnt['imports_compared'] = sum(sum(e['imports'].values()) for e in fs.values())
    cnt['calls_compared'] = sum(sum(e['calls'].values()) for e in fs.values())
    cnt['typedefs_compared'] = sum(len(e['typedefs']) for e in fs.values())
    cnt['bindings_compared'] = sum(sum(td['bindings'].values()) + sum(td['generics'].values()) + sum(td['finals'].values())
                                   for e in fs.values() for td in e['typedefs'].values())
    cnt['interfaces_compared'] = sum(sum(e['interfaces'].values()) for e in fs.values())
    cnt['regex_vs_fp_differences'] = len(diffs)
    # ---- incremental histories (REGEX vs REGEX)
    nhist = 3 if tier == 'quick' else 6
    for h in range(nhist):
        try:
            hd, inter, log, nsteps, no_pu_first = run_history(text, rng, rs, check_intermediate=True)
        except CaseTimeout:
            raise
        except Exception as e:
            kind = type(e).__name__ + ('-timeout' if 'timeout' in str(e) else '')
            hkey = f'regex:history-exception:{kind}:{attribution(src)}'
            if 'timeout' in str(e) and src['risky'] & STRUCTURAL:
                hkey = f'regex:unit-structure:{attribution(src)}'       # catastrophic backtracking of the unit patterns
            res['violations'].append({'key': hkey,
                                      'msg': f'incremental REGEX history raised {type(e).__name__}: {str(e)[:200]}',
                                      'witness': dict(witness_base, traceback=traceback.format_exc()[-1500:])})
            continue
        cnt['histories'] = cnt.get('histories', 0) + 1
        if no_pu_first:
            cnt['histories_without_programunit_first'] = cnt.get('histories_without_programunit_first', 0) + 1
        cnt['history_steps'] = cnt.get('history_steps', 0) + nsteps
        if hd:
            cats = sorted({c.split('-')[0] for c, _, _ in hd})
            res['violations'].append({'key': f'regex:history-final:{"+".join(cats)[:60]}:{attribution(src)}',
                                      'msg': f'incremental history differs from one-shot AllClasses parse: {hd[:3]}',
                                      'witness': dict(witness_base, history=log, differences=[list(map(str, i)) for i in hd[:12]])})
        for ilog, idiff, nopu in inter:
            cats = sorted({c.split('-')[0] for c, _, _ in idiff})
            key = f'regex:history-intermediate:{"+".join(cats)[:60]}:{attribution(src)}'
            if nopu:
                key = 'regex:history-intermediate:no-programunit-first'
            res['violations'].append({'key': key,
                                      'msg': f'incremental history differs from one-shot parse with the united classes: {idiff[:3]}',
                                      'witness': dict(witness_base, history=ilog, differences=[list(map(str, i)) for i in idiff])})
    res['nontrivial'] = len(fs) >= 2 and (cnt['calls_compared'] + cnt['imports_compared']) >= 1
    res['sample'] = {'kind': src['kind'], 'lines': text.count('\n'), 'units': sorted(fs)[:8],
                     'features': sorted(src['features'])[:14], 'risky': sorted(src['risky']),
                     'calls': cnt['calls_compared'], 'imports': cnt['imports_compared']}
    return res
