"""
Helpers shared by C24 (plan == conversion) and C25 (rename / duplicate / remove keep the graph consistent).

Built on the scheduler lab (``vlib/schedlab.py``, engine E6):

* ``gen_project`` / ``add_drivers`` / ``gen_config``   project (schedlab) restricted to the constructs the
                                  build-system transformations document support for, dedicated free driver routines,
                                  a scheduler configuration with implicit seeds (``role='driver'``), ``replicate`` /
                                  ``lib`` / ``mode`` entries
* ``choose_pipeline`` / ``gen_sequence``   pipeline specifications (list of ``(short name, options)``); constructs
                                  with a known finding ("traits") are only generated when the caller allows them
* ``instantiate(spec)``           real transformation objects for a pipeline specification
* ``toml_config(...)``            the same configuration + pipeline as a TOML file for ``loki_transform convert/plan``
* ``WriteAudit``                  ``sys.addaudithook`` based log of files opened for writing
* ``parse_plan``                  cmake ``set( LOKI_SOURCES_TO_... )`` lists of a plan file
* ``scan_units`` / ``build_order`` / ``build_and_run``   independent (regex) scan of Fortran files for module
                                  definitions / uses, compile order, gfortran build + run through ``vlib.diffexec``
* ``RenameModel``                 reference model of the item names after dependency-suffixing / module wrapping /
                                  duplication / removal (ground truth with the same renames applied)
"""
# pylint: disable=too-many-locals,too-many-branches,too-many-statements
import copy
import os
import re
import sys
from pathlib import Path

from vlib import schedlab as L
from vlib import diffexec

# constructs outside the documented domain of DependencyTransformation / DuplicateKernel / RemoveKernel
# (type-bound procedures, generic interfaces, renamed and unqualified imports, recursion, equal local names)
CORE_FLAGS = {
    'types': False, 'nested_types': False, 'interfaces': False, 'recursion': False,
    'renamed_imports': False, 'unqualified_imports': False, 'dup_local_names': False, 'unused_imports': False,
    'module_level_imports': False,
}

SHORT = {
    'dup': ('DuplicateKernel', 'loki.transformations.dependency'),
    'rem': ('RemoveKernel', 'loki.transformations.dependency'),
    'dep': ('DependencyTransformation', 'loki.transformations.build_system'),
    'wrap': ('ModuleWrapTransformation', 'loki.transformations.build_system'),
    'write': ('FileWriteTransformation', 'loki.transformations.build_system'),
}

MODES = ['idem', 'scc', 'plain', 'my-mode']


# ---------------------------------------------------------------------------------------------
# project helpers
# ---------------------------------------------------------------------------------------------

def callers_of(P):
    """{callee qname: [(caller Proc, 'body'|'internal', Call)]} over all Call objects of the model"""
    out = {}
    for p in P.procs:
        for c in p.calls:
            out.setdefault(c.target, []).append((p, 'body', c))
        for _, calls in p.internals:
            for c in calls:
                out.setdefault(c.target, []).append((p, 'internal', c))
    return out


def file_of(P):
    """{module name or proc qname: relpath}, {relpath: number of top-level units}"""
    where, count = {}, {}
    for relpath, units in P.files:
        count[relpath] = len(units)
        for kind, u in units:
            if kind == 'module':
                where[u] = relpath
                for p in P.modules[u].procs:
                    where[p.qname] = relpath
            else:
                where[u.qname] = relpath
    return where, count


def split_file(P, relpath):
    """Give every top-level unit of ``relpath`` a file of its own (first unit keeps the path)."""
    for k, (rp, units) in enumerate(P.files):
        if rp == relpath and len(units) > 1:
            new = [(rp, units[:1])]
            d, _, base = rp.rpartition('/')
            stem, suf = base[:-4], base[-4:]
            for j, u in enumerate(units[1:]):
                new.append((f'{d + "/" if d else ""}{stem}_s{j}{suf}', [u]))
            P.files[k:k + 1] = new
            P.compile_order()
            return True
    return False


def split_all_files(P):
    """One top-level unit per file (the IFS convention the build-system transformations are written for)."""
    for rp in [rp for rp, units in P.files if len(units) > 1]:
        split_file(P, rp)


def distinct_incs(P, rng):
    """Distinct increments: the printed sums then identify the multiset of executed routines."""
    vals = rng.sample(range(1, 60), len(P.procs))
    for p, v in zip(P.procs, vals):
        p.inc = v


# ---------------------------------------------------------------------------------------------
# case generation
# ---------------------------------------------------------------------------------------------

def gen_project(rng, n_routines, extra=None, all_intf=True, internal_calls=False, kernel_module_globals=False,
                multi_unit_files=False):
    """
    schedlab project inside the documented domain of the build-system transformations.  ``all_intf``: every call of
    a free subroutine is accompanied by an interface block in the caller (the IFS convention that
    ModuleWrapTransformation relies on to redirect callers to the wrapper module).
    """
    F = dict(CORE_FLAGS)
    F['n_routines'] = n_routines
    F.update(extra or {})
    P = L.gen_project(rng, F)
    distinct_incs(P, rng)
    if not multi_unit_files:
        split_all_files(P)
    if not internal_calls:
        # calls written inside internal procedures move to the body of the host (same dependencies)
        for p in P.procs:
            for k, (name, calls) in enumerate(p.internals):
                p.calls += calls
                p.internals[k] = (name, [])
    if not kernel_module_globals:
        # module variables are imported from header modules only: a module that holds procedures is renamed as a
        # whole by DependencyTransformation and importers of its variables need the retained original (documented)
        owners = list(P.procs) + list(P.modules.values())
        for o in owners:
            for u in list(o.uses):
                m = P.modules.get(u.module)
                if u.only and m is not None and m.procs and m.globals:
                    keep = [(l, r) for l, r in u.only if r not in m.globals]
                    for l, r in u.only:
                        if r in m.globals and l in getattr(o, 'globals_used', []):
                            o.globals_used.remove(l)
                    if keep:
                        u.only = keep
                    else:
                        o.uses.remove(u)
        P.compile_order()
    if all_intf:
        for p in P.procs:
            for c in p.calls + [c for _, calls in p.internals for c in calls]:
                if c.kind == 'sub' and c.target.startswith('#') and c.argkind == 'i' and c.local == c.target[1:] \
                        and c.local not in p.intf_blocks and c.target not in P.externals and c.target != p.qname:
                    p.intf_blocks.append(c.local)
    return P


def add_drivers(P, rng, n=None):
    """
    Dedicated driver routines (free subroutines in files of their own) on top of the roots of the call DAG: the
    documented use of the build-system transformations, where a driver keeps its name and its file holds nothing
    else.  Returns the new Proc objects (also appended to ``P.entry_points``).
    """
    truth = P.truth()
    targeted = {d['target'] for it in truth['items'].values() for d in it['deps']}
    roots = [p for p in P.entry_points if p.qname not in targeted]
    if not roots:
        return []
    n = n or rng.choice([1, 1, 2])
    used = {p.inc for p in P.procs}
    out = []
    first = True
    for k in range(n):
        d = L.Proc(len(P.procs), f'drv{k}_main', None)
        d.inc = next(v for v in range(61, 200) if v not in used)
        used.add(d.inc)
        tg = [roots[0]] if first else []
        first = False
        rest = [r for r in roots if r not in tg]
        tg += rng.sample(rest, min(len(rest), rng.choice([0, 1, 2]) if tg else rng.choice([1, 2])))
        if not tg:
            break
        for q in tg:
            if q.module:
                u = next((u for u in d.uses if u.module == q.module), None)
                if u is None:
                    d.uses.append(L.Use(q.module, [(q.name, q.name)]))
                else:
                    u.only.append((q.name, q.name))
            else:
                d.intf_blocks.append(q.name)
            d.calls.append(L.Call('sub', q.name, q.qname, 'i'))
        P.procs.append(d)
        P.files.append((f'drv{k}_main.F90', [('proc', d)]))
        P.entry_points.append(d)
        out.append(d)
    P.compile_order()
    return out


def has_bare_external_calls(P, exp):
    """some procedure of the graph calls a free subroutine without declaring it in an interface block"""
    for p in P.procs:
        if p.qname in exp.nodes:
            for c in p.calls + [c for _, calls in p.internals for c in calls]:
                if c.kind == 'sub' and c.target.startswith('#') and c.local not in p.intf_blocks:
                    return True
    return False


def gen_config(rng, P, opts=None):
    """
    Scheduler config with implicit seeds (roots of the call DAG).  Returns ``(config, meta)`` or ``(None, reason)``.
    ``opts``: replicate (allow replicate flags), libs, kernel_seed (a seed without role driver), lists (disable /
    block / ignore entries naming whole routines), expand_false, mode, mixed_role_module (allow a driver that shares
    its module with other routines of the graph).
    ``meta['traits']`` names the gated constructs that occur.
    """
    o = {'replicate': True, 'libs': True, 'kernel_seed': False, 'lists': False, 'expand_false': False,
         'mode': None, 'scoped_keys': True, 'max_seeds': 3, 'mixed_role_module': False, 'drivers': None,
         'replicate_closed': True}
    o.update(opts or {})
    truth = P.truth()
    targeted = {d['target'] for it in truth['items'].values() for d in it['deps']}
    roots = [p for p in P.entry_points if p.qname not in targeted]
    if not roots:
        return None, 'no root entry point'
    mode = o['mode'] or rng.choice(MODES)
    default = {'role': 'kernel', 'mode': mode, 'expand': True, 'strict': rng.random() < 0.6,
               'replicate': bool(o['replicate'] and rng.random() < 0.12),
               'enable_imports': rng.random() < 0.5}
    if o['libs'] and rng.random() < 0.3:
        default['lib'] = 'deflib'

    def mixed(p):
        return bool(p.module) and len(P.modules[p.module].procs) > 1

    def key_for(p):
        if p.module and o['scoped_keys'] and rng.random() < 0.35:
            return p.qname
        return p.name
    # seeds: the dedicated drivers (if any, else the first root) plus up to two more roots; a driver that shares its
    # module with other procedures is gated (mixed_role_module); further roots may be seeds with role kernel
    drivers = list(o['drivers'] or [])
    rest = [r for r in roots if r not in drivers]
    if not drivers:
        order = rest[:1] + rng.sample(rest[1:], len(rest) - 1)
    else:
        order = drivers + rng.sample(rest, len(rest))
    want = max(rng.choice([1, 1, 2, 3]), len(drivers))
    seeds, routines, kernel_seeds = [], {}, []
    for p in order:
        if len(seeds) >= min(want, max(o['max_seeds'], len(drivers))):
            break
        if p in drivers:
            entry = {'role': 'driver'}
        elif o['kernel_seed'] and seeds and rng.random() < 0.5:
            entry = {'seed_routine': True}
        elif mixed(p) and not o['mixed_role_module']:
            continue
        else:
            entry = {'role': 'driver'}
        seeds.append(p)
        routines[key_for(p)] = entry
        if 'role' not in entry:
            kernel_seeds.append(p.qname)
    if not seeds:
        return None, 'every root driver shares its module with other procedures'
    cfg = {'default': default, 'routines': routines}
    exp = L.reference_closure(truth, cfg, None)
    if exp.error:
        return None, 'reference closure: ' + str(exp.error)
    seedq = {p.qname for p in seeds}

    def rkey(p):
        return next((k for k in (p.name, p.qname) if k in routines), None) or key_for(p)
    kernels = sorted(n for n, k in exp.nodes.items() if k == 'ProcedureItem' and n not in seedq)
    byq = {p.qname: p for p in P.procs}
    where, count = file_of(P)
    meta = {'seeds': [p.qname for p in seeds], 'driver_seeds': [p.qname for p in seeds if p.qname not in kernel_seeds],
            'replicated': [], 'libs': {}, 'lists': {}, 'traits': set(), 'replicate_closed': o['replicate_closed']}
    if any(mixed(p) for p in seeds if p.qname not in kernel_seeds):
        meta['traits'].add('mixed_role_module')
    driver_modules = {p.module for p in seeds if p.module}
    for q in kernels:
        entry = {}
        p = byq[q]
        if o['replicate'] and not o['replicate_closed'] and rng.random() < 0.15 and q not in meta['replicated']:
            # set comparison only (no build): any single kernel may be marked
            entry['replicate'] = True
            meta['replicated'].append(q)
        elif o['replicate'] and rng.random() < 0.15 and q not in meta['replicated']:
            # a retained original needs its callees retained as well: replicate is closed under descendants
            grp, todo = [], [q]
            while todo:
                g = todo.pop()
                if g in grp or byq.get(g) is None:
                    continue
                grp.append(g)
                todo += [d for d in descendants(exp, g) if exp.nodes.get(d) == 'ProcedureItem']
                if byq[g].module:    # the whole file is retained: its other procedures keep calling their callees
                    todo += [s.qname for s in P.modules[byq[g].module].procs]
            if all(count.get(where.get(g), 1) == 1 and byq[g].module not in driver_modules and g not in seedq
                   and g in exp.nodes for g in grp):
                for g in grp:
                    if g not in meta['replicated']:
                        meta['replicated'].append(g)
                        if g != q:
                            routines.setdefault(rkey(byq[g]), {})['replicate'] = True
                entry['replicate'] = True
        if o['libs'] and rng.random() < 0.25:
            entry['lib'] = rng.choice(['liba', 'lib.b'])
            meta['libs'][q] = entry['lib']
        if rng.random() < 0.1:
            entry['mode'] = rng.choice(['other', 'idem'])
        if o['expand_false'] and rng.random() < 0.1:
            entry['expand'] = False
            meta['traits'].add('lists')
        if entry:
            routines.setdefault(rkey(p), {}).update(entry)
    if o['lists'] and kernels:
        for key in ('disable', 'block', 'ignore'):
            if rng.random() < 0.4:
                tgt = byq[rng.choice(kernels)]
                default[key] = [tgt.name if rng.random() < 0.7 or not tgt.module else tgt.qname]
                meta['lists'][key] = default[key]
        if meta['lists']:
            meta['traits'].add('lists')
    return cfg, meta


def kernel_candidates(P, exp, meta):
    """
    Procedures of the expected graph that DuplicateKernel / RemoveKernel can address by name: plain integer
    subroutines that are not seeds, reached by ``call <name>`` only.  Returns {qname: set of traits}.
    """
    cal = callers_of(P)
    byq = {p.qname: p for p in P.procs}
    out = {}
    for q, kind in exp.nodes.items():
        p = byq.get(q)
        if kind != 'ProcedureItem' or p is None or q in meta['seeds']:
            continue
        if p.is_function or p.bound_type or p.argkind != 'i' or p.recursive:
            continue
        refs = [(cp, w, c) for cp, w, c in cal.get(q, []) if cp.qname in exp.nodes]
        if not refs or any(c.kind != 'sub' or c.local != p.name for _, _, c in refs):
            continue
        traits = set()
        if any(w == 'internal' for _, w, _ in refs):
            traits.add('called_from_internal')
        if any(p.name in cp.intf_blocks for cp, _, _ in refs):
            traits.add('intf_block')
        if sum(1 for x in byq.values() if x.name == p.name) > 1:
            traits.add('dup_local_name')
        out[q] = traits
    return out


def group_traits(P, exp, group):
    """Traits of a set of procedures that DuplicateKernel clones (kernel + descendants with duplicate_subgraph)."""
    cal = callers_of(P)
    byq = {p.qname: p for p in P.procs}
    where, count = file_of(P)
    traits = set()
    for k, g in enumerate(group):
        p = byq.get(g)
        if p is None:
            continue
        if count.get(where.get(g), 1) > 1:
            traits.add('multi_unit_file')
        if p.module and any(cp.module == p.module and cp is not p for cp, _, _ in cal.get(g, [])):
            traits.add('sibling_caller')
        if p.module and len(P.modules[p.module].procs) > 1:
            traits.add('module_with_siblings')
        if k > 0 and (p.is_function or p.bound_type or p.argkind != 'i'):
            traits.add('function_in_subgraph')
        if any(mu.only and any(r == p.name for _, r in mu.only) for m in P.modules.values() for mu in m.uses):
            traits.add('module_level_import')
        if p.module and any(mu.only and any(f'{mu.module}#{r}' in byq for _, r in mu.only)
                            for mu in P.modules[p.module].uses):
            traits.add('module_level_import')
        if k > 0 and (p.internals or any(w == 'internal' for _, w, _ in cal.get(g, []))):
            traits.add('internal_in_subgraph')
    return traits


def descendants(exp, q):
    seen, todo = set(), [q]
    while todo:
        a = todo.pop()
        for x, y in exp.edges:
            if x == a and y not in seen:
                seen.add(y)
                todo.append(y)
    return seen


def choose_pipeline(rng, P, exp, meta, shape, allow=()):
    """
    Pipeline specification for ``shape`` (write | dep | wrapdep | dup | rem | duprem | dupdep | all).  Kernels whose traits are
    not in ``allow`` are not chosen.  Returns (spec, info) with info = {'dup', 'rem', 'subgraph', 'traits'}.
    """
    allow = set(allow)
    byq = {p.qname: p for p in P.procs}
    cands = kernel_candidates(P, exp, meta)
    spec = []
    info = {'dup': None, 'rem': None, 'subgraph': False, 'traits': set()}
    if shape in ('dup', 'duprem', 'dupdep', 'all'):
        sub = rng.random() < 0.4
        ok = []
        for q, traits in sorted(cands.items()):
            group = [q] + ([g for g in sorted(descendants(exp, q)) if exp.nodes.get(g) == 'ProcedureItem'] if sub else [])
            tr = (set(traits) - {'intf_block'}) | group_traits(P, exp, group)
            if sub and any(exp.nodes.get(g) not in ('ProcedureItem', 'ModuleItem') for g in descendants(exp, q)):
                tr.add('non_procedure_in_subgraph')
            if sub and any(g in meta['seeds'] for g in group):
                continue
            cloned = [s_ for g in group if g in byq for s_ in (P.modules[byq[g].module].procs if byq[g].module else [byq[g]])]
            if shape in ('dupdep', 'all') and any(s_.intf_blocks for s_ in cloned):
                # the clone shares the interface bodies with the original: a later renaming hits them twice
                tr.add('dup_intf_then_rename')
            if tr - {'module_with_siblings'} <= allow:
                ok.append((q, tr))
        if ok:
            q, tr = rng.choice(ok)
            info.update({'dup': q, 'subgraph': sub})
            info['dup_group'] = [q] + ([g for g in sorted(descendants(exp, q)) if exp.nodes.get(g) == 'ProcedureItem']
                                       if sub else [])
            info['traits'] |= tr & allow
            spec.append(('dup', {'duplicate_kernels': [q.split('#')[1]], 'duplicate_suffix': rng.choice(['_dupl', '_d2']),
                                 'duplicate_module_suffix': rng.choice([None, '_dmod']), 'duplicate_subgraph': sub}))
    if shape in ('rem', 'duprem', 'all'):
        banned = set()
        if info['dup']:
            banned = {info['dup']} | descendants(exp, info['dup'])
        ok = []
        for q, traits in sorted(cands.items()):
            if q in banned or not traits <= allow:
                continue
            below = {q} | descendants(exp, q)
            if any(x in meta['replicated'] or x in meta['libs'] for x in below):
                continue
            if info['dup'] and info['dup'] in below:
                continue
            ok.append((q, traits))
        if ok:
            q, tr = rng.choice(ok)
            info['rem'] = q
            info['traits'] |= tr & allow
            spec.append(('rem', {'remove_kernels': [q.split('#')[1]]}))
    if rng.random() < 0.25:
        spec.reverse()
    if shape in ('wrapdep', 'dupdep', 'all') and (shape == 'wrapdep' or rng.random() < 0.5):
        # the call DuplicateKernel adds for a free routine comes without interface block: ModuleWrapTransformation
        # cannot redirect it to the wrapper module (gated)
        free_dup = any(g.startswith('#') for g in info.get('dup_group', []))
        if not free_dup or 'dup_free_then_wrap' in allow:
            spec.append(('wrap', {'module_suffix': '_mod'}))
            if free_dup:
                info['traits'].add('dup_free_then_wrap')
    if shape in ('dep', 'wrapdep', 'dupdep', 'all'):
        spec.append(('dep', {'suffix': rng.choice(['_loki', '_lk']), 'module_suffix': rng.choice(['_mod', '_mod', None])}))
    return spec, info


# ---------------------------------------------------------------------------------------------
# pipelines
# ---------------------------------------------------------------------------------------------

def instantiate(spec):
    import importlib   # pylint: disable=import-outside-toplevel
    out = []
    for name, opts in spec:
        cls, mod = SHORT[name]
        out.append(getattr(importlib.import_module(mod), cls)(**opts))
    return out


def toml_config(config, spec, mode):
    """TOML text for ``loki_transform``: scheduler config + transformations + pipeline ``mode``"""
    import tomli_w   # pylint: disable=import-outside-toplevel
    cfg = copy.deepcopy(config)
    cfg['transformations'] = {}
    names = []
    for k, (name, opts) in enumerate(spec):
        cls, mod = SHORT[name]
        tname = 'FileWriteTransformation' if name == 'write' else f't{k}_{name}'
        entry = {'classname': cls, 'module': mod}
        o = {a: b for a, b in opts.items() if b is not None}
        if o:
            entry['options'] = o
        cfg['transformations'][tname] = entry
        if name != 'write':
            names.append(tname)
    cfg['pipelines'] = {mode: {'transformations': names}}
    return tomli_w.dumps(cfg)


# ---------------------------------------------------------------------------------------------
# observation
# ---------------------------------------------------------------------------------------------

class WriteAudit:
    """Process-wide audit hook (cannot be removed: it is cheap and inactive unless ``start`` was called)."""
    _installed = None

    def __init__(self):
        self.active = False
        self.events = []

    @classmethod
    def get(cls):
        if cls._installed is None:
            cls._installed = cls()
            sys.addaudithook(cls._installed._hook)   # pylint: disable=protected-access
        return cls._installed

    def _hook(self, event, args):
        if not self.active or event != 'open':
            return
        try:
            path, mode, flags = args
            if isinstance(path, int):
                return
            writing = False
            if mode is not None:
                writing = any(c in mode for c in 'wax+')
            elif flags is not None:
                writing = bool(flags & (os.O_WRONLY | os.O_RDWR | os.O_CREAT))
            if writing:
                # paths are reported as passed (often relative): resolve against the cwd at hook time
                self.events.append(os.path.abspath(os.fsdecode(path)))
        except Exception:  # pylint: disable=broad-except
            pass

    def start(self):
        self.events = []
        self.active = True

    def stop(self):
        self.active = False
        return list(self.events)


PLAN_RE = re.compile(r'set\(\s*(\w+)\s*(.*?)\s*\)', re.DOTALL)


def parse_plan(text):
    out = {}
    for k, v in PLAN_RE.findall(text):
        out.setdefault(k, [])
        out[k] += v.split()
    return out


def snapshot(root):
    out = {}
    for p in Path(root).rglob('*'):
        if p.is_file():
            st = p.stat()
            out[str(p)] = (st.st_mtime_ns, st.st_size)
    return out


def loki_frame(e):
    import traceback   # pylint: disable=import-outside-toplevel
    seen = e
    while getattr(seen, '__cause__', None) is not None:
        seen = seen.__cause__
    tb = traceback.extract_tb(seen.__traceback__)
    where = next((f'{fr.filename.split("/")[-1]}:{fr.name}' for fr in reversed(tb) if '/loki/' in fr.filename), '?')
    return f'{type(seen).__name__}@{where}'


# ---------------------------------------------------------------------------------------------
# independent scan of Fortran files + build
# ---------------------------------------------------------------------------------------------

_MOD_DEF = re.compile(r'^\s*module\s+(?!procedure\b)(\w+)\s*$', re.I | re.M)
_USE = re.compile(r'^\s*use\s+(?:,\s*intrinsic\s*::\s*)?(\w+)', re.I | re.M)
_PROC_DEF = re.compile(r'^\s*(?:recursive\s+|pure\s+|elemental\s+)*(?:integer\s+|real\s+)?(subroutine|function)\s+(\w+)',
                       re.I | re.M)


def scan_units(text):
    """(modules defined, modules used, procedures defined (any nesting level, interface bodies included))"""
    mods = [m.lower() for m in _MOD_DEF.findall(text)]
    uses = [m.lower() for m in _USE.findall(text)]
    procs = [m[1].lower() for m in _PROC_DEF.findall(text)]
    return mods, uses, procs


def build_order(files):
    """``files``: {name: text}.  Returns (order, missing) where missing = {name: [modules not defined anywhere]}"""
    defs, uses = {}, {}
    for name, text in files.items():
        mods, us, _ = scan_units(text)
        for m in mods:
            defs.setdefault(m, name)
        uses[name] = us
    order, done, missing = [], set(), {}

    def visit(f, stack=()):
        if f in done or f in stack:
            return
        for m in uses[f]:
            g = defs.get(m)
            if g is None:
                missing.setdefault(f, []).append(m)
            elif g != f:
                visit(g, stack + (f,))
        done.add(f)
        order.append(f)
    for f in sorted(files):
        visit(f)
    return order, missing


def _explain(msg, blob):
    """compiler message with the offending line replaced by its file marker context"""
    m = re.search(r'all_units\.F90:(\d+)', msg)
    if m:
        lines = blob.splitlines()
        n = int(m.group(1))
        mark = next((l for l in reversed(lines[:n]) if l.startswith('! ---- ')), '')
        errs = re.findall(r'Error: .*', msg)
        return f'{mark[7:]}: line {lines[n - 1].strip()!r}: {errs[0] if errs else msg[-300:]}'
    return msg[-900:]


FAST_FLAGS = ['-O0', '-fcheck=all', '-ffree-line-length-none', '-finit-integer=-99999', '-w']


_CALL = re.compile(r'\bcall\s+(\w+)', re.I)
_TOP_PROC = re.compile(r'^(?:recursive\s+)?(?:integer\s+)?(?:subroutine|function)\s+(\w+)', re.I | re.M)


def top_level_names(text):
    """names of modules and of external (column-0 after Loki / generator formatting) procedures defined in ``text``"""
    return {m.lower() for m in _MOD_DEF.findall(text)} | {m.lower() for m in _TOP_PROC.findall(text)}


def build_and_run(workdir, required, driver, optional=None):
    """
    Compile ``required`` ({path-like name: text}) + ``driver`` (PROGRAM text), link and run.  Files of ``optional``
    are added on demand: when they define a module that an included file uses or an external procedure that an
    included file calls and no included file defines.
    Returns {'status': 'ok'|'build_fail'|'run_fail', 'out': str, 'detail': str, 'pulled': [...]}
    """
    optional = dict(optional or {})
    files = dict(required)
    pulled = []
    drv_name = 'zz driver'
    while True:
        defs_mod, defs_proc = set(), set()
        for t in files.values():
            mods, _, _ = scan_units(t)
            defs_mod |= set(mods)
            defs_proc |= {m.lower() for m in _TOP_PROC.findall(t)}   # external procedures only (column 0)
        need_mod, need_proc = set(), set()
        for t in list(files.values()) + [driver]:
            _, uses, _ = scan_units(t)
            need_mod |= set(uses) - defs_mod
            need_proc |= {c.lower() for c in _CALL.findall(t)} - defs_proc
        add = None
        for name in sorted(optional):
            mods, _, _ = scan_units(optional[name])
            if set(mods) & need_mod or ({m.lower() for m in _TOP_PROC.findall(optional[name])} & need_proc):
                add = name
                break
        if add is None:
            break
        files[add] = optional.pop(add)
        pulled.append(add)
    flat, used = {}, set()
    for name, text in files.items():
        base = Path(name).name
        stem, suf = base.rsplit('.', 1)
        k = 0
        while base.lower() in used:
            k += 1
            base = f'{stem}_{k}.{suf}'
        used.add(base.lower())
        flat[base] = (name, text)
    texts = {b_: t for b_, (_, t) in flat.items()}
    order, missing = build_order(texts)
    if missing:
        f = sorted(missing)[0]
        return {'status': 'build_fail', 'out': '', 'pulled': pulled,
                'detail': f'{flat[f][0]} uses module(s) {sorted(set(missing[f]))} defined in no file of the build'}
    del drv_name
    # one translation unit in dependency order: two compiler processes per build instead of one per file
    blob = '\n'.join(f'! ---- file {flat[f][0]}\n{texts[f]}' for f in order) + '\n! ---- driver\n' + driver
    workdir = Path(workdir)
    workdir.mkdir(parents=True, exist_ok=True)
    (workdir / 'all_units.F90').write_text(blob)
    # compile and link in one compiler invocation (process start-up dominates on a loaded machine)
    rc, _, err = diffexec._run(['gfortran'] + FAST_FLAGS + ['all_units.F90', '-o', 'a.out'], workdir, 600)   # pylint: disable=protected-access
    if rc == -999:
        return {'status': 'timeout', 'out': '', 'detail': 'compiler timed out', 'pulled': pulled}
    if rc != 0:
        return {'status': 'build_fail', 'out': '', 'detail': _explain(err[-1500:], blob), 'pulled': pulled}
    exe = workdir / 'a.out'
    r = diffexec.run(exe, timeout=120)
    if r['rc'] == -999:
        return {'status': 'timeout', 'out': '', 'detail': 'program timed out', 'pulled': pulled}
    if r['rc'] != 0 or r['san']:
        return {'status': 'run_fail', 'out': r['out'], 'detail': f"rc={r['rc']} {r['san'][:2]} {r['err'][-300:]}",
                'pulled': pulled}
    return {'status': 'ok', 'out': r['out'], 'detail': '', 'pulled': pulled}


# ---------------------------------------------------------------------------------------------
# behaviour model of duplication / removal (renaming and module wrapping are behaviour-neutral)
# ---------------------------------------------------------------------------------------------

def behaviour_edit(P, processed, spec):
    """
    Copy of the project in which every ``call k`` in the body of a processed procedure is doubled for duplicated
    kernels and deleted for removed kernels (``processed``: qualified names of the procedures of the graph).
    Valid when duplicated and removed kernels are distinct and a removed kernel is not below a duplicated one
    (``gen_sequence`` excludes clones that call the removed kernel and sets ``info['rem_keeps_renamed_copy']`` when a
    subgraph duplication left a renamed copy of the removed kernel: then there is no reference output).
    """
    Q = copy.deepcopy(P)

    def mname(c):
        return getattr(c, 'mname', c.local)
    for name, opts in spec:
        if name == 'dup':
            ks = {k.lower() for k in opts['duplicate_kernels']}
            for p in Q.procs:
                if p.qname in processed:
                    new = []
                    for c in p.calls:
                        new.append(c)
                        if c.kind == 'sub' and mname(c) in ks:
                            d = copy.copy(c)
                            d.mname = mname(c) + opts['duplicate_suffix']   # the copy is called under the new name
                            new.append(d)
                    p.calls = new
        elif name == 'rem':
            ks = {k.lower() for k in opts['remove_kernels']}
            for p in Q.procs:
                if p.qname in processed:
                    p.calls = [c for c in p.calls if not (c.kind == 'sub' and mname(c) in ks)]
        elif name == 'dep':
            # callees are kernels (drivers are roots): later steps address them by their suffixed names
            for p in Q.procs:
                if p.qname in processed:
                    for c in p.calls:
                        if not mname(c).endswith(opts['suffix']):
                            c.mname = mname(c) + opts['suffix']
    return Q


def project_texts(P, speller=None):
    """{relpath: text} without touching the file system"""
    sp = speller or L.Speller()
    return {relpath: '\n'.join(P._emit_unit(kind, u, sp) for kind, u in units) + '\n'   # pylint: disable=protected-access
            for relpath, units in P.files}


# ---------------------------------------------------------------------------------------------
# reference model of the item names (ground truth with the same renames applied)
# ---------------------------------------------------------------------------------------------

def derive_module_name(modname, suffix, module_suffix):
    """documented rule of DependencyTransformation: canonical ``<base><suffix><module_suffix>``"""
    if module_suffix and modname.endswith(module_suffix):
        modname = modname[:-len(module_suffix)]
    if modname.endswith(suffix):
        modname = modname[:-len(suffix)]
    return f'{modname}{suffix}{module_suffix or ""}'


class RenameModel:
    """
    Procedure items of the scheduler graph under the documented effects of the four transformations.

    ``procs``: {current item name: {'scope', 'local', 'role', 'origin' (qualified name of the generated procedure the
    item was derived from), 'dup' (bool)}};  ``edges``: caller -> callee over current names; ``other``: non-procedure
    nodes (header modules), never renamed.  Only the clean domain is modelled (see ``choose_pipeline``).
    """

    def __init__(self, exp, meta):
        self.procs = {}
        self.other = {n: k for n, k in exp.nodes.items() if k != 'ProcedureItem'}
        self.edges = set(exp.edges)
        self.seeds = list(meta['seeds'])
        drivers = set(meta['driver_seeds'])
        for n, k in exp.nodes.items():
            if k == 'ProcedureItem':
                scope, local = n.split('#')
                self.procs[n] = {'scope': scope, 'local': local, 'role': 'driver' if n in drivers else 'kernel',
                                 'origin': n, 'dup': False}
        self.log = []

    # -- helpers ---------------------------------------------------------------------------------
    def reachable(self):
        seen, todo = set(), [s for s in self.seeds if s in self.procs]
        while todo:
            a = todo.pop()
            if a in seen:
                continue
            seen.add(a)
            todo += [y for x, y in self.edges if x == a]
        return seen

    def prune(self):
        live = self.reachable()
        self.procs = {n: v for n, v in self.procs.items() if n in live}
        self.other = {n: k for n, k in self.other.items() if n in live}
        self.edges = {(a, b) for a, b in self.edges if a in live and b in live}

    def _rename(self, old, scope, local):
        new = f'{scope}#{local}'
        if new == old:
            return
        v = self.procs.pop(old)
        v['scope'], v['local'] = scope, local
        self.procs[new] = v
        self.edges = {(new if a == old else a, new if b == old else b) for a, b in self.edges}
        self.seeds = [new if s == old else s for s in self.seeds]

    def below(self, name):
        seen, todo = set(), [name]
        while todo:
            a = todo.pop()
            for x, y in self.edges:
                if x == a and y not in seen:
                    seen.add(y)
                    todo.append(y)
        return seen

    def by_local(self, local):
        return [n for n, v in self.procs.items() if v['local'] == local]

    # -- transformations -------------------------------------------------------------------------
    def apply(self, name, opts):
        getattr(self, f'_{name}')(opts)
        self.log.append(name)

    def _dup(self, o):
        suffix = o['duplicate_suffix']
        msuffix = o.get('duplicate_module_suffix') or suffix
        new_edges = set()
        for k in o['duplicate_kernels']:
            for n in self.by_local(k):
                if not any(b == n for a, b in self.edges):
                    continue      # no caller in the graph: nothing is duplicated
                group = [n] + ([d for d in self.below(n) if d in self.procs] if o.get('duplicate_subgraph') else [])
                new = {}
                for g in group:
                    v = self.procs[g]
                    sc = f"{v['scope']}{msuffix}" if v['scope'] else ''
                    new[g] = (f"{sc}#{v['local']}{suffix}", {'scope': sc, 'local': v['local'] + suffix, 'role': 'kernel',
                                                          'origin': v['origin'], 'dup': True})
                # the clone of a module holds copies of all its procedures: same-module callees that are not
                # renamed themselves resolve to their copies in the cloned module
                todo = list(new)
                while todo:
                    g = todo.pop()
                    nn, v = new[g]
                    self.procs[nn] = v
                    for a, b in self.edges:
                        if a != g:
                            continue
                        if b not in new and b in self.procs and self.procs[g]['scope'] \
                                and self.procs[b]['scope'] == self.procs[g]['scope']:
                            w = self.procs[b]
                            new[b] = (f"{v['scope']}#{w['local']}", {'scope': v['scope'], 'local': w['local'],
                                                                    'role': 'kernel', 'origin': w['origin'], 'dup': True})
                            todo.append(b)
                        new_edges.add((nn, new[b][0] if b in new else b))
                for a, b in self.edges:
                    if b == n:
                        new_edges.add((a, new[n][0]))
        self.edges |= new_edges

    def _rem(self, o):
        ks = set(o['remove_kernels'])
        gone = {n for n, v in self.procs.items() if v['local'] in ks}
        self.edges = {(a, b) for a, b in self.edges if b not in gone}
        self.prune()

    def _wrap(self, o):
        for n in list(self.procs):
            v = self.procs[n]
            if v['role'] == 'kernel' and not v['scope']:
                self._rename(n, f"{v['local']}{o['module_suffix']}", v['local'])

    def _dep(self, o):
        suffix, msuffix = o['suffix'], o.get('module_suffix')
        for n in list(self.procs):
            v = self.procs[n]
            if v['role'] != 'kernel':
                continue
            local = v['local'] if v['local'].endswith(suffix) else v['local'] + suffix
            scope = derive_module_name(v['scope'], suffix, msuffix) if v['scope'] else ''
            self._rename(n, scope, local)


def gen_sequence(rng, P, exp, meta, allow=(), maxlen=4):
    """
    Random sequence of dup / rem / wrap / dep steps over the evolving model (kernels are addressed by their current
    names).  Steps whose traits are not in ``allow`` are not generated.  Returns (spec, model, info).
    """
    allow = set(allow)
    byq = {p.qname: p for p in P.procs}
    model = RenameModel(exp, meta)
    cands0 = kernel_candidates(P, exp, meta)
    n = rng.choice([1, 2, 2, 3, 3, 4][:max(1, maxlen + 2)])
    kinds = [rng.choice(['dup', 'dup', 'rem', 'wrap', 'dep', 'dep', 'dep']) for _ in range(n)]
    # at most one wrap, one rem, one dep (two in the gated slice: the second pass renames the driver's calls again), two dup
    seen = {}
    kinds = [k for k in kinds if seen.setdefault(k, 0) < {'wrap': 1, 'rem': 1, 'dep': 2 if 'dep_twice' in allow else 1, 'dup': 2}[k]
             and not seen.__setitem__(k, seen[k] + 1)]
    if 'rem' in kinds and ('dep' in kinds or 'wrap' in kinds) and 'rem_then_rename' not in allow:
        drop = 'rem' if rng.random() < 0.5 else 'rename'
        kinds = [k for k in kinds if (k != 'rem' if drop == 'rem' else k not in ('dep', 'wrap'))]
    spec, traits = [], set()
    info = {'dup': [], 'rem': [], 'traits': traits}
    used_suffix = set()
    sfx = rng.choice(['_loki', '_lk'])
    msfx = rng.choice(['_mod', '_mod', None])
    for pos, kind in enumerate(kinds):
        later = kinds[pos + 1:]
        if kind == 'dup':
            sub = rng.random() < 0.4
            suffix = next((s for s in rng.sample(['_dupl', '_d2', '_cp'], 3) if s not in used_suffix), None)
            ok = []
            for n_, v in sorted(model.procs.items()):
                q = v['origin']
                if v['dup'] or q not in cands0 or n_ in model.seeds or v['role'] != 'kernel':
                    continue
                if not any(b == n_ for a, b in model.edges):
                    continue
                group = [n_] + ([d for d in sorted(model.below(n_)) if d in model.procs] if sub else [])
                if any(model.procs[g]['dup'] for g in group) or any(g in model.seeds for g in group):
                    continue
                ogroup = [model.procs[g]['origin'] for g in group]
                tr = (set(cands0[q]) - {'intf_block'}) | group_traits(P, exp, ogroup)
                tr.discard('module_with_siblings')
                if sub and any(d in model.other and model.other[d] != 'ModuleItem' for d in model.below(n_)):
                    tr.add('non_procedure_in_subgraph')
                cloned = [s_ for g in ogroup for s_ in (P.modules[byq[g].module].procs if byq[g].module else [byq[g]])]
                if 'dep' in later and any(s_.intf_blocks for s_ in cloned):
                    tr.add('dup_intf_then_rename')
                if 'wrap' in later and any(not model.procs[g]['scope'] for g in group):
                    tr.add('dup_free_then_wrap')
                if tr <= allow:
                    ok.append((n_, tr))
            if ok and suffix:
                n_, tr = rng.choice(ok)
                used_suffix.add(suffix)
                traits |= tr
                opts = {'duplicate_kernels': [model.procs[n_]['local']], 'duplicate_suffix': suffix,
                        'duplicate_module_suffix': rng.choice([None, suffix + 'm']), 'duplicate_subgraph': sub}
                info['dup'].append(n_)
                spec.append(('dup', opts))
                model.apply('dup', opts)
        elif kind == 'rem':
            ok = []
            for n_, v in sorted(model.procs.items()):
                q = v['origin']
                if v['dup'] or q not in cands0 or n_ in model.seeds:
                    continue
                tr = set(cands0[q])
                if any(model.procs[d]['dup'] for d in model.below(n_) if d in model.procs):
                    continue
                if any(model.procs[c]['dup'] for c, b in model.edges if b == n_ and c in model.procs):
                    continue      # a clone keeps calling the original name of the removed kernel's copy
                if any(x in info['dup'] for x in [n_] + list(model.below(n_))):
                    continue
                if tr <= allow:
                    ok.append((n_, tr))
            if ok:
                n_, tr = rng.choice(ok)
                traits |= tr
                opts = {'remove_kernels': [model.procs[n_]['local']]}
                # DuplicateKernel(duplicate_subgraph=True) made a copy of this kernel under another name: RemoveKernel
                # addresses kernels by name, so the copy (and its contribution) rightly survives, while
                # ``behaviour_edit`` shares one body between original and copy -> its output is no reference here
                if any(w['dup'] and w['origin'] == model.procs[n_]['origin'] and w['local'] != model.procs[n_]['local']
                       for w in model.procs.values()):
                    info['rem_keeps_renamed_copy'] = True
                info['rem'].append(n_)
                spec.append(('rem', opts))
                model.apply('rem', opts)
        elif kind == 'wrap':
            if 'dep' not in later:
                # documented use: ModuleWrapTransformation is followed by DependencyTransformation (which also drops
                # the inactive procedures that still call the wrapped routines as externals)
                if 'wrap_without_dep' not in allow:
                    continue
                traits.add('wrap_without_dep')
            opts = {'module_suffix': '_mod'}
            spec.append(('wrap', opts))
            model.apply('wrap', opts)
        else:
            opts = {'suffix': sfx, 'module_suffix': msfx}
            spec.append(('dep', opts))
            model.apply('dep', opts)
    if info['rem'] and any(n in ('dep', 'wrap') for n, _ in spec):
        traits.add('rem_then_rename')
    if sum(1 for n, _ in spec if n == 'dep') > 1:
        traits.add('dep_twice')
    return spec, model, info
