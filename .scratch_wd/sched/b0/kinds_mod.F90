module kinds_mod
  implicit none
  integer, parameter :: jprb = selected_real_kind(13, 300)
  integer, parameter :: jpim = selected_int_kind(9)
  integer, parameter :: npar = 3
  integer, parameter :: npar2 = 2
  real(kind=jprb), parameter :: rpar = 1.5_jprb
end module kinds_mod
