"""C11 -- expression equality is symmetric, case-insensitive and hash-consistent (node zoo, in-process)."""
from vlib.core import sighash

PID = 'C11'
LEVEL = 'exploration'
TECHNIQUE = 'pairwise algebraic-law monitor (symmetry, twin equality, eq=>hash, dict lookup) over a generated node zoo'
LEVEL_TEXT = ('Every ==/hash()/dict-lookup evaluation on generated pairs of real Loki expression nodes (all node '
              'classes, case-permuted twins, near-miss variants across classes) is checked against the laws of the '
              'property; a counter-example is a concrete pair. Absence of violations is evidence over the sampled '
              'pairs only.')
LEVEL_NOTE = ('Only pairs of expression nodes are judged (not node-vs-str/number). Twins differ only in the spelling of '
              'names (symbols, procedures, cast names, kind names, keyword names); literal contents are never '
              're-spelled. The documented 1:n == n shortcut is recognised structurally and exempted (counted).')
RULE = ('Per case 10-14 random expression specs (depth<=3) are drawn over every node class; each spec gets 2-4 '
        'near-miss variant specs (class swaps Sum/ParenthesisedAdd, Range/RangeIndex/LoopRange, Scalar/Array/Deferred/'
        'Procedure/VariableSymbol, Array(subs)/InlineCall/StringSubscript, literal class and kind swaps, 1:n vs n, '
        'scoped vs unscoped, one name renamed) and every spec is built 3 times with different spellings of all '
        'names. All pairs inside a family and a random sample of cross-family pairs are evaluated both ways. '
        'Non-trivial = at least 30 twin pairs and 6 node classes at top level; distinct = hash of the printed zoo.')
CASES = {'quick': 1000, 'thorough': 12000}
THOROUGH_VALIDATED = True   # full thorough tier ran to completion with exit 0 on the unchanged tree
MIN_NONTRIVIAL = {'quick': 600, 'thorough': 8000}
ANCHORS = ['loki/expression/mixins.py', 'loki/expression/literals.py', 'loki/expression/symbols.py',
           'loki/expression/operations.py']
REQUIRED_REACH = ['__eq__', '__hash__', '_canonical']
REQUIRED_COUNTERS = {'pairs': 40000, 'twin_pairs': 5000, 'documented_range_shortcut_pairs': 20,
                     'dict_lookups': 5000}
ASSUMPTIONS = ['equality of a node with a str / int / float is outside the property (both operands must be nodes)',
               'string-literal contents, float exponent letters and BOZ texts are not names and are never re-spelled '
               'in twins',
               'the documented exception is: x is Range/RangeIndex/LoopRange with start == 1 and no step, and '
               'x.stop == y; for such a pair asymmetry and hash disagreement are exempt']
BUDGET_S = {'quick': 300, 'thorough': 3000}
CASE_TIMEOUT_S = 120

NAMES = ['a', 'b', 'n', 'klev', 'x1', 'var_z', 'i', 'jk', 'ydg', 'tend']
PROCS = ['f', 'max', 'my_fun', 'sum', 'g2']
KINDS = ['jprb', 'jpim', 'selected_real_kind', 'r8']
KWNAMES = ['dim', 'mask', 'kind', 'opt_x']
FLOATS = ['1.0', '0.5', '2.', '1.0e3', '1.5d0', '3.14', '1', '66.0']
INTS = [0, 1, 2, 5, 8, 42, 137]
STRS = ['abc', 'Ab c', 'x', 'Hello', '1', 'n']
INTRINSICS = ["z'ff'", '(1.0, 2.0)', "b'1010'", '1', 'n']
CMPOPS = ['==', '!=', '<', '<=', '>', '>=']


# ---------------------------------------------------------------------------
# spec generation (nested tuples); names are stored lower-case in the spec
# ---------------------------------------------------------------------------

class SpecGen:
    def __init__(self, rng, flags):
        self.rng = rng
        self.flags = flags

    def name(self):
        return self.rng.choice(NAMES)

    def kind(self):
        r = self.rng.random()
        if r < 0.5:
            return None
        if r < 0.85:
            return ('scalar', self.rng.choice(KINDS), None, False)
        return ('int', self.rng.choice([4, 8]), None)

    def leaf(self):
        r = self.rng
        k = r.choice(['scalar', 'scalar', 'array0', 'deferred', 'proc', 'varsym', 'int', 'int', 'float', 'logic',
                      'str', 'intrinsic', 'member', 'scoped'])
        if k == 'scalar':
            return ('scalar', self.name(), None, False)
        if k == 'scoped':
            return ('scalar', self.name(), None, True)
        if k == 'array0':
            return ('array', self.name(), None, None, r.random() < 0.3)
        if k == 'deferred':
            return ('deferred', self.name())
        if k == 'proc':
            return ('proc', r.choice(PROCS))
        if k == 'varsym':
            return ('varsym', self.name())
        if k == 'int':
            return ('int', r.choice(INTS), self.kind())
        if k == 'float':
            return ('float', r.choice(FLOATS), self.kind())
        if k == 'logic':
            return ('logic', r.random() < 0.5)
        if k == 'str':
            return ('str', r.choice(STRS))
        if k == 'intrinsic':
            return ('intrinsic', r.choice(INTRINSICS))
        # derived-type member a%b or a%b%c
        par = ('scalar', self.name(), None, False)
        if r.random() < 0.3:
            par = ('scalar', self.name(), par, False)
        return ('scalar', self.name(), par, False)

    def range(self, depth, cls=None):
        r = self.rng
        cls = cls or r.choice(['range', 'rangeindex', 'looprange'])
        start = r.choice([None, ('int', 1, None), ('int', 1, None), ('int', 2, None), 'e'])
        stop = r.choice([None, 'e', 'e', 'e'])
        step = r.choice([None, None, None, ('int', 2, None), 'e'])
        f = lambda x: self.expr(depth - 1, norange=True) if x == 'e' else x
        return (cls, f(start), f(stop), f(step))

    def expr(self, depth, norange=False):
        r = self.rng
        if depth <= 0 or r.random() < 0.22:
            return self.leaf()
        kinds = ['sum', 'prod', 'quot', 'pow', 'cmp', 'and', 'or', 'not', 'psum', 'pprod', 'pquot', 'ppow',
                 'concat', 'cast', 'call', 'call', 'array', 'array', 'array', 'litlist', 'inlinedo', 'strsub',
                 'ref', 'deref', 'neg', 'memberarray']
        if not norange:
            kinds += ['range', 'range']
        k = r.choice(kinds)
        sub = lambda: self.expr(depth - 1, norange=True)
        if k in ('sum', 'prod', 'and', 'or', 'psum', 'pprod', 'concat'):
            ch = tuple(sub() for _ in range(r.choice([2, 2, 3])))
            if k in ('prod', 'pprod'):
                # a string concatenation as factor is ill-typed Fortran and makes Loki's stringifier raise
                # (StringConcat + 1); keep the zoo to printable trees
                ch = tuple(self.leaf() if c[0] == 'concat' else c for c in ch)
            return (k, ch)
        if k in ('quot', 'pow', 'pquot', 'ppow'):
            return (k, sub(), sub())
        if k == 'cmp':
            return ('cmp', sub(), r.choice(CMPOPS), sub())
        if k in ('not', 'ref', 'deref'):
            return (k, sub())
        if k == 'neg':
            c = sub()
            return ('prod', (('pyint', -1), self.leaf() if c[0] == 'concat' else c))
        if k == 'cast':
            return ('cast', r.choice(['real', 'int', 'dble']), sub(), self.kind())
        if k == 'call':
            nkw = r.choice([0, 0, 1, 2]) if self.flags['kwargs'] else 0
            kws = tuple((n, sub()) for n in r.sample(KWNAMES, nkw))
            return ('call', r.choice(['proc', 'proc', 'deferred', 'scalar']), r.choice(PROCS + NAMES[:2]),
                    tuple(sub() for _ in range(r.choice([0, 1, 2]))), kws)
        if k in ('array', 'memberarray'):
            dims = tuple(self.range(depth, 'rangeindex') if r.random() < 0.35 else sub()
                         for _ in range(r.choice([1, 1, 2, 3])))
            par = ('scalar', self.name(), None, False) if k == 'memberarray' else None
            return ('array', self.name(), dims, par, r.random() < 0.2)
        if k == 'litlist':
            return ('litlist', tuple(sub() for _ in range(r.choice([1, 2, 3]))), r.choice([None, None, 'real', 'int']))
        if k == 'inlinedo':
            return ('inlinedo', sub(), ('scalar', r.choice(['i', 'jk']), None, False),
                    self.range(depth, 'looprange'))
        if k == 'strsub':
            return ('strsub', ('scalar', self.name(), None, False), self.range(depth, 'rangeindex'))
        return self.range(depth)

    # near-miss variants of a spec ------------------------------------------------
    def variants(self, s):
        r = self.rng
        out = []
        k = s[0]
        swap = {'sum': 'psum', 'psum': 'sum', 'prod': 'pprod', 'pprod': 'prod', 'quot': 'pquot', 'pquot': 'quot',
                'pow': 'ppow', 'ppow': 'pow', 'and': 'or', 'or': 'and', 'ref': 'deref', 'deref': 'ref'}
        if k in swap and not (k == 'prod' and s[1][0][0] == 'pyint'):
            out.append((swap[k],) + s[1:])
        if k in ('sum', 'prod', 'and', 'or', 'psum', 'pprod', 'concat') and len(s[1]) >= 2:
            ch = list(s[1])
            ch[0], ch[-1] = ch[-1], ch[0]
            out.append((k, tuple(ch)))
            out.append((k, tuple(s[1][:-1])) if len(s[1]) > 2 else s[1][0])
        if k in ('range', 'rangeindex', 'looprange'):
            for c in ('range', 'rangeindex', 'looprange'):
                if c != k:
                    out.append((c,) + s[1:])
            if s[2] is None and s[3] is None and self.flags['open_range_start']:
                out += [(k, ('float', '1.0', None), None, None), (k, ('int', 1, None), None, None)]
            if s[2] is not None:
                out.append(s[2])                                     # 1:n vs n (documented shortcut when start is 1)
                out.append((k, ('int', 1, None), s[2], None))
                out.append((k, ('int', 1, ('int', 4, None)), s[2], None))
                out.append((k, ('int', 1, None), s[2], ('int', 1, None)))
        if k == 'scalar':
            out += [('deferred', s[1]), ('proc', s[1]), ('varsym', s[1]), ('array', s[1], None, s[2], s[3]),
                    ('scalar', s[1], s[2], not s[3]), ('str', s[1]), ('intrinsic', s[1]),
                    ('range', ('int', 1, None), s, None), ('rangeindex', ('int', 1, None), s, None),
                    ('looprange', ('int', 1, None), s, None)]
            if s[2] is None:
                out.append(('scalar', s[1], ('scalar', r.choice(NAMES), None, False), False))
        if k in ('deferred', 'proc', 'varsym'):
            out += [('scalar', s[1], None, False), ('array', s[1], None, None, False)]
            out += [(c, s[1]) for c in ('deferred', 'proc', 'varsym') if c != k]
        if k == 'array':
            if s[2]:
                out.append(('call', 'proc', s[1], s[2], ()))
                out.append(('call', 'deferred', s[1], s[2], ()))
                out.append(('array', s[1], None, s[3], s[4]))
                out.append(('array', s[1], s[2], s[3], not s[4]))
                if len(s[2]) == 1 and s[3] is None:
                    out.append(('strsub', ('scalar', s[1], None, False), s[2][0]))
                d0 = s[2][0]
                if d0[0] == 'rangeindex' and d0[2] is not None:
                    out.append(('array', s[1], (d0[2],) + s[2][1:], s[3], s[4]))
                elif d0[0] != 'rangeindex':
                    out.append(('array', s[1], (('rangeindex', ('int', 1, None), d0, None),) + s[2][1:], s[3], s[4]))
            else:
                out += [('scalar', s[1], s[3], s[4]), ('array', s[1], (), s[3], s[4])]
        if k == 'call':
            out.append(('array', s[2], s[3], None, False) if s[3] and not s[4] else
                       ('call', s[1], s[2], s[3], ()))
            out.append(('call', {'proc': 'deferred', 'deferred': 'proc', 'scalar': 'proc'}[s[1]], s[2], s[3], s[4]))
            if s[4]:
                out.append(('call', s[1], s[2], s[3], tuple(reversed(s[4]))))
                out.append(('call', s[1], s[2], s[3] + (s[4][0][1],), s[4][1:]))
            if s[3] and not s[4]:
                out.append(('cast', s[2], s[3][0], None))
        if k == 'cast':
            out.append(('call', 'proc', s[1], (s[2],), (('kind', s[3]),) if s[3] else ()))
            out.append(('cast', s[1], s[2], None if s[3] else ('scalar', 'jprb', None, False)))
        if k == 'int':
            out += [('float', str(s[1]), s[2]), ('intrinsic', str(s[1])), ('str', str(s[1])), ('pyint', s[1]),
                    ('int', s[1], None if s[2] else ('int', 4, None)), ('logic', bool(s[1])),
                    ('float', str(s[1]) + '.0', s[2]), ('sum', (s,))]
            if s[2] and s[2][0] == 'scalar':
                out.append(('int', s[1], ('strkind', s[2][1])))
        if k == 'float':
            out += [('intrinsic', s[1]), ('str', s[1]), ('float', s[1], None if s[2] else ('int', 8, None)),
                    ('float', s[1] + '0', s[2])]
            if s[2] and s[2][0] == 'scalar':
                out.append(('float', s[1], ('deferred', s[2][1])))
        if k == 'logic':
            out += [('logic', not s[1]), ('intrinsic', '.true.' if s[1] else '.false.'), ('str', 'True'),
                    ('int', int(s[1]), None)]
        if k == 'str':
            out += [('intrinsic', s[1]), ('intrinsic', "'" + s[1] + "'"), ('str', s[1] + ' '),
                    ('scalar', s[1].replace(' ', '_'), None, False)]
            if self.flags['strlit_case']:
                out.append(('str', s[1].swapcase()))
        if k == 'intrinsic':
            out += [('str', s[1])]
        if k == 'litlist':
            out += [('litlist', s[1], 'real' if s[2] is None else None), ('litlist', s[1][:-1] or s[1] + s[1], s[2])]
        if k == 'inlinedo':
            out += [('inlinedo', s[1], s[2], ('range',) + s[3][1:]), ('litlist', (s[1],), None)]
        if k == 'strsub':
            out += [('array', s[1][1], (s[2],), None, False)]
        if k == 'cmp':
            out += [('cmp', s[3], s[2], s[1]), ('cmp', s[1], r.choice([o for o in CMPOPS if o != s[2]]), s[3])]
        if k == 'not':
            out += [s[1]]
        # one variant that renames a name somewhere, one that re-nests a child variant
        out.append(self.rename(s))
        out = [o for o in out if o is not None and o != s]
        r.shuffle(out)
        out = out[:r.choice([2, 3, 4])]
        if self.flags['strlit_case']:
            t = self.respell_strings(s)
            if t != s and t not in out:
                out.append(t)
        return out

    def rename(self, s):
        """Replace the first symbol name found by a different one."""
        done = [False]

        def rec(t):
            if not isinstance(t, tuple) or done[0]:
                return t
            if t and t[0] in ('scalar', 'deferred', 'proc', 'varsym', 'array') and not done[0]:
                done[0] = True
                new = t[1] + 'q'
                return (t[0], new) + t[2:]
            return tuple(rec(x) for x in t)
        return rec(s)

    def respell_strings(self, s):
        def rec(t):
            if not isinstance(t, tuple):
                return t
            if t and t[0] == 'str':
                return ('str', t[1].swapcase())
            return tuple(rec(x) for x in t)
        return rec(s)


# ---------------------------------------------------------------------------
# building real nodes from specs
# ---------------------------------------------------------------------------

class Builder:
    def __init__(self, rng, scope, respell, respell_kw=False, respell_strkind=False):
        self.rng = rng
        self.scope = scope
        self.respell = respell
        self.respell_kw = respell_kw
        self.respell_strkind = respell_strkind

    def sp(self, name):
        if not self.respell:
            return name
        m = self.rng.random()
        if m < 0.25:
            return name.upper()
        if m < 0.4:
            return name.capitalize()
        return ''.join(c.upper() if self.rng.random() < 0.5 else c for c in name)

    def b(self, s):  # pylint: disable=too-many-return-statements,too-many-branches
        from loki.expression import symbols as sym, operations as ops
        from loki.types import SymbolAttributes, BasicType
        if s is None:
            return None
        k = s[0]
        if k == 'pyint':
            return s[1]
        if k == 'strkind':
            return self.sp(s[1]) if self.respell_strkind else s[1]
        if k == 'scalar':
            par = self.b(s[2])
            name = self.sp(s[1])
            if par is not None:
                name = f'{par.name}%{name}'
            kw = {'parent': par} if par is not None else {}
            if s[3]:
                kw['scope'] = self.scope
            return sym.Scalar(name, **kw)
        if k == 'array':
            par = self.b(s[3])
            name = self.sp(s[1])
            if par is not None:
                name = f'{par.name}%{name}'
            kw = {'parent': par} if par is not None else {}
            if s[4]:
                kw['scope'] = self.scope
            dims = None if s[2] is None else tuple(self.b(d) for d in s[2])
            return sym.Array(name, dimensions=dims, **kw)
        if k == 'deferred':
            return sym.DeferredTypeSymbol(self.sp(s[1]))
        if k == 'proc':
            return sym.ProcedureSymbol(self.sp(s[1]))
        if k == 'varsym':
            return sym.VariableSymbol(name=self.sp(s[1]))
        if k == 'int':
            return sym.IntLiteral(s[1], kind=self.b(s[2]))
        if k == 'float':
            return sym.FloatLiteral(s[1], kind=self.b(s[2]))
        if k == 'logic':
            return sym.LogicLiteral(s[1])
        if k == 'str':
            return sym.StringLiteral(s[1])
        if k == 'intrinsic':
            return sym.IntrinsicLiteral(s[1])
        if k in ('sum', 'prod', 'and', 'or', 'psum', 'pprod', 'concat'):
            cls = {'sum': ops.Sum, 'prod': ops.Product, 'and': ops.LogicalAnd, 'or': ops.LogicalOr,
                   'psum': ops.ParenthesisedAdd, 'pprod': ops.ParenthesisedMul, 'concat': ops.StringConcat}[k]
            return cls(tuple(self.b(c) for c in s[1]))
        if k in ('quot', 'pow', 'pquot', 'ppow'):
            cls = {'quot': ops.Quotient, 'pow': ops.Power, 'pquot': ops.ParenthesisedDiv,
                   'ppow': ops.ParenthesisedPow}[k]
            return cls(self.b(s[1]), self.b(s[2]))
        if k == 'cmp':
            return ops.Comparison(self.b(s[1]), s[2], self.b(s[3]))
        if k == 'not':
            return ops.LogicalNot(self.b(s[1]))
        if k == 'ref':
            return ops.Reference(self.b(s[1]))
        if k == 'deref':
            return ops.Dereference(self.b(s[1]))
        if k == 'cast':
            return ops.Cast(self.sp(s[1]), self.b(s[2]), kind=self.b(s[3]))
        if k == 'call':
            fn = {'proc': sym.ProcedureSymbol, 'deferred': sym.DeferredTypeSymbol, 'scalar': sym.Scalar}[s[1]](
                self.sp(s[2]))
            kws = {(self.sp(n) if self.respell_kw else n): self.b(v) for n, v in s[4]}
            return sym.InlineCall(fn, tuple(self.b(a) for a in s[3]), kws)
        if k in ('range', 'rangeindex', 'looprange'):
            cls = {'range': sym.Range, 'rangeindex': sym.RangeIndex, 'looprange': sym.LoopRange}[k]
            return cls((self.b(s[1]), self.b(s[2]), self.b(s[3])))
        if k == 'litlist':
            dt = None if s[2] is None else SymbolAttributes(BasicType.from_fortran_type(
                {'real': 'real', 'int': 'integer'}[s[2]]))
            return sym.LiteralList(tuple(self.b(c) for c in s[1]), dtype=dt)
        if k == 'inlinedo':
            return sym.InlineDo((self.b(s[1]),), self.b(s[2]), self.b(s[3]))
        if k == 'strsub':
            return sym.StringSubscript(self.b(s[1]), self.b(s[2]))
        raise ValueError(f'unknown spec {k}')


# ---------------------------------------------------------------------------
# oracle
# ---------------------------------------------------------------------------

def _kind(x):
    return type(x).__name__


def _is_node(x):
    import pymbolic.primitives as pmbl
    return isinstance(x, pmbl.Expression)


def _documented_shortcut(x, y):
    """x is a Range-like 1:n (no step) and y is (equal to) n, y not itself range-like."""
    from loki.expression import symbols as sym
    if not isinstance(x, sym.Range) or isinstance(y, sym.Range):
        return False
    try:
        ch = x.children
        if not (_is_node(ch[0]) or isinstance(ch[0], int)) or ch[2] is not None:
            return False
        if not ch[0] == 1:
            return False
        return bool(ch[1] == y) or bool(y == ch[1])
    except Exception:  # pylint: disable=broad-except
        return False


def _walk_calls(x, acc):
    """Collect InlineCall nodes reachable through InlineCall parameter tuples (the custom-hash path)."""
    from loki.expression import symbols as sym
    if isinstance(x, sym.InlineCall):
        acc.append(x)
        for p in tuple(x.parameters) + tuple(x.kw_parameters.values()):
            _walk_calls(p, acc)


def _strings_in(x):
    from loki.expression import symbols as sym
    return [n.value for n in _walk(x, []) if isinstance(n, sym.StringLiteral)]


def _walk(x, acc):
    """Own structural walk (does not rely on Loki mappers, tolerates str kinds)."""
    from loki.expression import symbols as sym
    if isinstance(x, (tuple, list)):
        for e in x:
            _walk(e, acc)
    elif isinstance(x, dict):
        _walk(tuple(x.values()), acc)
    elif _is_node(x):
        acc.append(x)
        if isinstance(x, sym.MetaSymbol):
            _walk(x._symbol, acc)  # pylint: disable=protected-access
        elif isinstance(x, sym.TypedSymbol):
            _walk(x.parent, acc)
        else:
            try:
                _walk(x.__getinitargs__(), acc)
            except Exception:  # pylint: disable=broad-except
                pass
            if isinstance(x, sym.InlineCall):
                _walk(x.kw_parameters, acc)
    return acc


def _literals_in(x, cls):
    return [n for n in _walk(x, []) if isinstance(n, cls)]


def _str_kind(x):
    from loki.expression import symbols as sym
    return any(isinstance(getattr(l, 'kind', None), str) for l in _literals_in(x, (sym.IntLiteral, sym.FloatLiteral)))


def hash_cause(x, y):
    """Narrow mechanism for 'equal but different hash'."""
    from loki.expression import symbols as sym
    kx, ky = sorted((_kind(x), _kind(y)))
    cx, cy = [], []
    _walk_calls(x, cx)
    _walk_calls(y, cy)
    if cx and cy:
        kwx = [tuple(c.kw_parameters) for c in cx]
        kwy = [tuple(c.kw_parameters) for c in cy]
        if kwx != kwy and [tuple(k.lower() for k in t) for t in kwx] == [tuple(k.lower() for k in t) for t in kwy]:
            return 'hash:InlineCall:kwarg-name-case'
        if _str_kind(x) or _str_kind(y):
            return 'hash:InlineCall:literal-kind-given-as-str'
        ix = [(l.value, str(l.kind).lower()) for l in _literals_in(x, sym.IntLiteral)]
        iy = [(l.value, str(l.kind).lower()) for l in _literals_in(y, sym.IntLiteral)]
        if ix != iy and [v for v, _ in ix] == [v for v, _ in iy]:
            return 'hash:InlineCall:int-literal-kind-ignored-by-eq'
        sx, sy = _strings_in(x), _strings_in(y)
        if sx != sy and [s.lower().replace(' ', '') for s in sx] == [s.lower().replace(' ', '') for s in sy]:
            return 'hash:InlineCall:string-literal-arg-case-or-blank'
        return 'hash:InlineCall:other'
    if _str_kind(x) or _str_kind(y):
        return 'hash:literal-kind-given-as-str'
    if isinstance(x, sym.Range) and isinstance(y, sym.Range) and \
            all(r.children[1] is None and r.children[2] is None for r in (x, y)):
        # '1:' == None through the 1:n == n shortcut (n = None), hence any two open ranges starting at 1 are equal
        return 'hash:Range:open-upper-bound-shortcut'
    return f'hash:unequal-for-equal:{kx}/{ky}'


class Monitor:
    def __init__(self):
        self.viol = {}
        self.c = {'pairs': 0, 'eq_evals': 0, 'hash_evals': 0, 'equal_pairs': 0, 'twin_pairs': 0,
                  'documented_range_shortcut_pairs': 0, 'dict_lookups': 0, 'reflexive_checks': 0,
                  'equal_pairs_of_different_class': 0}
        self.kinds = set()

    def v(self, key, msg, x, y):
        if key not in self.viol:
            self.viol[key] = {'key': key, 'msg': msg,
                              'witness': {'x': f'{_kind(x)}: {x!s}', 'y': f'{_kind(y)}: {y!s}',
                                          'repr_x': repr(x)[:400], 'repr_y': repr(y)[:400]}}

    def h(self, x):
        self.c['hash_evals'] += 1
        return hash(x)

    def single(self, x, rebuilt):
        self.c['reflexive_checks'] += 1
        k = _kind(x)
        try:
            h1, h2 = self.h(x), self.h(x)
            if h1 != h2:
                self.v(f'hash:unstable:{k}', 'hash(x) changed between two calls', x, x)
            if not x == x:  # pylint: disable=comparison-with-itself
                self.v(f'eq:not-reflexive:{k}', 'x == x is false', x, x)
            if not (x == rebuilt and rebuilt == x):
                self.v(f'eq:identical-rebuild-unequal:{k}', 'two builds of the same spec with the same spelling differ',
                       x, rebuilt)
            elif h1 != self.h(rebuilt):
                self.v(hash_cause(x, rebuilt), 'two identical builds are equal but hash differently', x, rebuilt)
        except Exception as e:  # pylint: disable=broad-except
            self.v(f'eq:exception:{type(e).__name__}:{k}/{k}', f'{type(e).__name__}: {e}', x, x)

    def pair(self, x, y, twin):
        kx, ky = _kind(x), _kind(y)
        sk = '/'.join(sorted((kx, ky)))
        self.c['pairs'] += 1
        self.kinds.add(kx)
        try:
            e1 = x == y
            e2 = y == x
            self.c['eq_evals'] += 2
            hx, hy = self.h(x), self.h(y)
        except Exception as e:  # pylint: disable=broad-except
            self.v(f'eq:exception:{type(e).__name__}:{sk}', f'{type(e).__name__}: {e}', x, y)
            return
        if not isinstance(e1, bool) or not isinstance(e2, bool):
            e1, e2 = bool(e1), bool(e2)
        if twin:
            self.c['twin_pairs'] += 1
            if not (e1 and e2):
                if kx == ky and kx in ('IntLiteral', 'FloatLiteral') and (_str_kind(x) or _str_kind(y)):
                    sk = 'literal-kind-given-as-str'
                self.v(f'eq:case-sensitive:{sk}', f'nodes differing only in the case of names: x==y {e1}, y==x {e2}',
                       x, y)
                return
        if _documented_shortcut(x, y) or _documented_shortcut(y, x):
            self.c['documented_range_shortcut_pairs'] += 1
            return
        if e1 != e2:
            self.v(f'eq:asymmetric:{sk}', f'x==y is {e1} but y==x is {e2}', x, y)
            return
        if e1:
            self.c['equal_pairs'] += 1
            if kx != ky:
                self.c['equal_pairs_of_different_class'] += 1
            if hx != hy:
                self.v(hash_cause(x, y), 'x == y and y == x but hash(x) != hash(y)', x, y)
                return
            # dictionary behaviour (substitution maps)
            self.c['dict_lookups'] += 1
            try:
                d = {x: 'vx'}
                if d.get(y) != 'vx' or y not in d:
                    self.v(f'dict:lookup-miss:{sk}', 'equal nodes with equal hashes but {x: v}[y] misses', x, y)
            except Exception as e:  # pylint: disable=broad-except
                self.v(f'dict:exception:{type(e).__name__}:{sk}', f'{type(e).__name__}: {e}', x, y)


def run_case(idx, rng, tier, ctx):
    from loki.types import Scope, SymbolAttributes, BasicType
    flags = {'kwargs': True, 'kw_case': rng.random() < 0.08, 'strlit_case': rng.random() < 0.08,
             'strkind_case': rng.random() < 0.05, 'open_range_start': rng.random() < 0.08}
    gen = SpecGen(rng, flags)
    scope = Scope()
    for n in NAMES[:5]:
        scope.symbol_attrs[n] = SymbolAttributes(rng.choice([BasicType.INTEGER, BasicType.REAL]))
    mon = Monitor()
    nspec = rng.choice([10, 12, 14]) if tier == 'quick' else rng.choice([12, 16, 20])
    families = []
    printed = []
    build_errors = 0
    for _ in range(nspec):
        spec = gen.expr(rng.choice([1, 2, 2, 3]))
        specs = [spec] + gen.variants(spec)
        fam = []   # (node, spec index)
        for si, s in enumerate(specs):
            try:
                base = Builder(rng, scope, False, False).b(s)
                same = Builder(rng, scope, False, False).b(s)
                tw = [Builder(rng, scope, True, flags['kw_case'], flags['strkind_case']).b(s) for _ in range(2)]
            except (AssertionError, TypeError, ValueError, AttributeError):
                build_errors += 1
                continue
            if not _is_node(base):
                continue
            try:
                text = f'{_kind(base)}:{base!s}'
                str(tw[0])
            except Exception:  # pylint: disable=broad-except
                build_errors += 1          # not printable (ill-typed tree): outside the zoo
                continue
            mon.single(base, same)
            fam += [(base, si), (tw[0], si), (tw[1], si)]
            printed.append(text)
        families.append(fam)
        for i in range(len(fam)):
            for j in range(i + 1, len(fam)):
                mon.pair(fam[i][0], fam[j][0], twin=fam[i][1] == fam[j][1])
    allnodes = [(n, fi) for fi, fam in enumerate(families) for n, _ in fam]
    ncross = 250 if tier == 'quick' else 500
    for _ in range(ncross if len(allnodes) > 3 else 0):
        (x, fx), (y, fy) = rng.sample(allnodes, 2)
        if fx != fy:
            mon.pair(x, y, twin=False)
    feats = sorted(mon.kinds) + [f for f in ('kw_case', 'strlit_case', 'strkind_case', 'open_range_start') if flags[f]]
    counters = dict(mon.c)
    counters['build_rejected_specs'] = build_errors
    return {'sig': sighash(printed), 'nontrivial': mon.c['twin_pairs'] >= 30 and len(mon.kinds) >= 6,
            'violations': list(mon.viol.values()), 'inconclusive': None,
            'sample': {'zoo_head': printed[:8], 'flags': flags, 'pairs': mon.c['pairs']},
            'counters': counters, 'features': feats}
