"""
symmon -- run-time monitor for ``loki.expression.symbolic.simplify`` (C08; also active under C09/C10).

``install()`` replaces ``simplify`` in ``loki.expression.symbolic`` (and every already imported module that
holds a reference to it) by the same function decorated with an icontract post-condition
``value_preserved(expr, enabled_simplifications, result)``: input and result are evaluated by the independent
evaluator of ``vlib.symeval`` at the valuations the running case registered with ``MON.begin(envs)``; a
difference raises ``SimplifyChangedValue`` carrying a report.  The internal rewriting steps
(``flatten_expr``, ``distribute_product``, ``distribute_quotient``, ``sum_literals``, ``mul_literals``,
``div_literals``, ``collect_coefficients``, ``separate_coefficients`` and the ``SimplifyMapper.map_*`` methods) are wrapped by thin
recorders that are switched on only while ``attribute()`` replays a failing call: the first step whose output
value differs from its input value names the mechanism (``simplify:<step>:<category>``); the category says
whether the step is wrong even over the rationals (``algebra``) or only under Fortran typing (``int-division``,
``creates-int-division``, ``real-type-lost``).
"""
import functools
import sys
import traceback

import icontract

from vlib import symeval as se
from vlib.core import CaseTimeout

_HELPERS = ('flatten_expr', 'distribute_product', 'distribute_quotient', 'sum_literals', 'mul_literals',
            'div_literals', 'collect_coefficients', 'separate_coefficients')
_METHODS = ('map_sum', 'map_product', 'map_quotient', 'map_power', 'map_comparison', 'map_logical_and',
            'map_logical_or', 'map_logical_not')
_ALIASES = {'map_parenthesised_add': 'map_sum', 'map_parenthesised_mul': 'map_product',
            'map_parenthesised_div': 'map_quotient'}
_SKIP_REASONS = ('integer overflow', 'real out of range', 'real overflow', 'huge exponent')


class SimplifyChangedValue(AssertionError):
    """Post-condition of simplify violated."""

    def __init__(self, report):
        super().__init__(report.get('why', 'value changed'))
        self.report = report


class Monitor:
    def __init__(self):
        self.envs = None
        self.auto = False
        self.tracing = False
        self.trace = []
        self.evaluations = 0
        self.skipped = 0
        self.unjudged = 0
        self.calls = 0
        self.last_report = None

    def begin(self, envs, auto=False):
        """Register the valuations for the calls that follow; ``auto`` derives them from declared variable types."""
        self.envs = envs
        self.auto = auto
        self.evaluations = 0
        self.skipped = 0
        self.calls = 0
        self.last_report = None

    def end(self):
        st = {'evaluations': self.evaluations, 'skipped': self.skipped, 'calls': self.calls}
        self.envs = None
        self.auto = False
        return st

    def judge(self, expr, flags, result):
        """The post-condition: True if ``result`` has the value of ``expr`` at every registered valuation."""
        self.calls += 1
        envs = self.envs
        if envs is None and self.auto:
            envs = auto_envs(expr)
        if envs is None:
            self.unjudged += 1
            return True
        rep = compare(expr, result, envs, self)
        if rep is None:
            return True
        rep['flags'] = str(flags)
        self.last_report = rep
        return False


def auto_envs(expr, n=8):
    """Valuations for the scalar variables of ``expr`` from their declared types (None if a type is unknown)."""
    import random
    from loki import BasicType
    from loki.expression import symbols as sym
    from loki.ir import FindVariables
    kinds = {}
    try:
        for v in FindVariables(unique=True).visit(expr):
            if isinstance(v, sym.Array) and getattr(v, 'dimensions', None):
                return None
            dt = getattr(getattr(v, 'type', None), 'dtype', None)
            if dt == BasicType.INTEGER:
                kinds[v.name.lower()] = int
            elif dt == BasicType.REAL:
                kinds[v.name.lower()] = float
            else:
                return None
    except CaseTimeout:
        raise
    except Exception:  # pylint: disable=broad-except
        return None
    rng = random.Random(len(kinds) * 7919 + 17)
    envs = []
    for _ in range(n):
        env = {}
        for name, k in sorted(kinds.items()):
            v = rng.randint(1, 9) * rng.choice([1, 1, -1])
            env[name] = v if k is int else v / 4.0 + (0.125 if v > 0 else -0.125)
        envs.append(env)
    return envs


def compare(expr, result, envs, stats=None):
    """None if values agree at all envs (where both are defined), else a report dict."""
    for env in envs:
        try:
            v0, e0 = se.evaluate(expr, env)
        except se.Undefined:
            if stats:
                stats.skipped += 1
            continue
        if e0.fragile:
            if stats:
                stats.skipped += 1
            continue
        try:
            v1, e1 = se.evaluate(result, env)
        except se.Undefined as u:
            if str(u) in _SKIP_REASONS:
                if stats:
                    stats.skipped += 1
                continue
            return {'why': f'input has value {v0!r} but result is undefined ({u})', 'env': env,
                    'expr': _r(expr), 'result': _r(result), 'expected': v0, 'got': None}
        if e1.fragile:
            if stats:
                stats.skipped += 1
            continue
        if stats:
            stats.evaluations += 1
        if not se.values_agree(v0, v1, max(e0.mag, e1.mag)):
            return {'why': f'value {v0!r} became {v1!r} at {_envtxt(env, expr)}', 'env': env,
                    'expr': _r(expr), 'result': _r(result), 'expected': v0, 'got': v1,
                    'int_division_in_input': e0.int_divs > 0, 'int_division_in_result': e1.int_divs > 0}
    return None


def _r(e):
    try:
        return se.render(e)
    except CaseTimeout:
        raise
    except Exception:  # pylint: disable=broad-except
        return str(e)


def _envtxt(env, expr):
    text = _r(expr)
    return ', '.join(f'{k}={v}' for k, v in env.items() if k in text)


MON = Monitor()
_ORIG = {}


def value_preserved(expr, enabled_simplifications, result):
    return MON.judge(expr, enabled_simplifications, result)


def _error(expr, enabled_simplifications, result):  # pylint: disable=unused-argument
    return SimplifyChangedValue(MON.last_report or {'why': 'value changed'})


def _recorder(name, fn):
    @functools.wraps(fn)
    def wrapper(*args, **kwargs):
        out = fn(*args, **kwargs)
        if MON.tracing:
            # helper functions take the expression first; mapper methods (self, expr, ...)
            inp = args[1] if name.startswith('map_') else args[0]
            if name == 'separate_coefficients':
                # (coefficient, has_float, components) stands for coefficient * prod(components)
                from loki.expression import symbols as sym
                MON.trace.append((name, inp, sym.Product((out[0], *out[2])) if out[2] else out[0]))
            else:
                MON.trace.append((name, inp, out))
        return out
    wrapper.__verif_wrapped__ = True
    return wrapper


def install():
    """Idempotent.  Returns the contracted simplify."""
    from loki.expression import symbolic as S
    if 'simplify' in _ORIG:
        return S.simplify
    orig = S.simplify
    _ORIG['simplify'] = orig
    contracted = icontract.ensure(value_preserved, error=_error)(orig)
    contracted.__verif_contract__ = True
    S.simplify = contracted
    for mod in list(sys.modules.values()):
        try:
            if mod is not None and mod is not S and getattr(mod, 'simplify', None) is orig:
                setattr(mod, 'simplify', contracted)
        except CaseTimeout:
            raise
        except Exception:  # pylint: disable=broad-except
            pass
    for name in _HELPERS:
        fn = getattr(S, name)
        _ORIG[name] = fn
        setattr(S, name, _recorder(name, fn))
    cls = S.SimplifyMapper
    for name in _METHODS:
        fn = cls.__dict__[name]
        _ORIG['SimplifyMapper.' + name] = fn
        setattr(cls, name, _recorder(name, fn))
    for alias, name in _ALIASES.items():
        setattr(cls, alias, cls.__dict__[name])
    return contracted


def original_simplify():
    return _ORIG['simplify']


def innermost_symbolic_frame(exc):
    """Name of the innermost function of loki/expression/symbolic.py on the traceback of ``exc``."""
    name = 'unknown'
    for fr in traceback.extract_tb(exc.__traceback__):
        if fr.filename.endswith('expression/symbolic.py') and fr.name != 'wrapper':
            name = fr.name
    return name


def attribute(expr, flags, envs):
    """
    Replay ``simplify(expr, flags)`` with the step recorders on and name the first rewriting step whose output
    differs in value from its input.  Returns (key, detail).
    """
    MON.trace = []
    MON.tracing = True
    try:
        original_simplify()(expr, flags)
    except CaseTimeout:
        raise
    except Exception as exc:  # pylint: disable=broad-except
        MON.tracing = False
        return f'simplify:exception:{type(exc).__name__}:{innermost_symbolic_frame(exc)}', None
    finally:
        MON.tracing = False
    trace, MON.trace = MON.trace, []
    first_kind = None
    for name, inp, out in trace:
        if inp is out:
            continue
        rep = compare(inp, out, envs)
        if rep is not None:
            if not _exact_preserved(inp, out, envs):
                cat = 'algebra'            # wrong even over the rationals (dropped factor, sign, wrong constant)
            else:                          # algebraically valid rewrite, wrong under Fortran typing rules
                cat = ('int-division' if rep.get('int_division_in_input') else
                       ('creates-int-division' if rep.get('int_division_in_result') else 'value'))
            step = name
            if cat != 'algebra' and name.startswith('map_') and first_kind is not None \
                    and name not in ('map_power', 'map_comparison'):
                step, cat = first_kind[0], 'real-type-lost'
                rep = dict(rep, type_lost_at={'step': first_kind[0], 'input': _r(first_kind[1]),
                                              'output': _r(first_kind[2])})
            elif cat == 'value' and _kind_lost(inp, out, envs):
                cat = 'real-type-lost'
            return f'simplify:{step}:{cat}', {'step': step, 'step_input': rep['expr'], 'step_output': rep['result'],
                                              'why': rep['why']}
        if first_kind is None and _kind_lost(inp, out, envs):
            first_kind = (name, inp, out)
    return 'simplify:unattributed:value', None


def _exact_preserved(inp, out, envs):
    """True if the step preserves the value over the rationals (exact division) at every valuation."""
    for env in envs:
        try:
            if not se.exact_agree(se.evaluate_exact(inp, env), se.evaluate_exact(out, env)):
                return False
        except se.Undefined:
            continue
    return True


def _kind_lost(inp, out, envs):
    """The step turned a real-valued expression into an integer-valued one (same numeric value)."""
    for env in envs:
        try:
            v0, _ = se.evaluate(inp, env)
            v1, _ = se.evaluate(out, env)
        except se.Undefined:
            continue
        return isinstance(v0, float) and isinstance(v1, int) and not isinstance(v1, bool)
    return False


def _subtrees(e, acc):
    import pymbolic.primitives as pmbl
    if isinstance(e, (int, float, bool)):
        return
    kids = []
    if isinstance(e, pmbl.Quotient):
        kids = [e.numerator, e.denominator]
    elif isinstance(e, pmbl.Power):
        kids = [e.base, e.exponent]
    elif isinstance(e, pmbl.Comparison):
        kids = [e.left, e.right]
    elif isinstance(e, pmbl.LogicalNot):
        kids = [e.child]
    elif hasattr(e, 'children'):
        kids = list(e.children)
    if kids:
        acc.append(e)
    for k in kids:
        _subtrees(k, acc)


def minimal_subtree(expr, flags, envs, key):
    """Smallest sub-tree of ``expr`` that alone violates the post-condition with the same mechanism key."""
    acc = []
    _subtrees(expr, acc)
    acc.sort(key=lambda e: len(_r(e)))
    simp = original_simplify()
    for sub in acc:
        try:
            out = simp(sub, flags)
        except CaseTimeout:
            raise
        except Exception:  # pylint: disable=broad-except
            continue
        rep = compare(sub, out, envs)
        if rep is None:
            continue
        k, _ = attribute(sub, flags, envs)
        if k == key:
            return {'expr': rep['expr'], 'loki_str': str(sub), 'result': rep['result'], 'why': rep['why']}
    return None
