"""C42 -- lint results do not depend on the number of workers or on completion order."""
import re
import shutil
import xml.etree.ElementTree as ET
from collections import Counter
from pathlib import Path

from vlib import parlab
from vlib.core import sighash

PID = 'C42'
LEVEL = 'fault_enumeration'
TECHNIQUE = 'event-log checker + differential (serial vs. parallel) over enumerated delay plans'
LEVEL_TEXT = ('every generated file set is linted by the real lint_files serially and with 2/4/8 workers under '
              'enumerated start-delay plans (none, reverse-of-submission, single task delayed, random seeds) '
              'injected by the guarded workqueue hook; exactly-once is decided on the hook trace, per-file report '
              'equality on four handler outputs; only the schedules actually observed are covered')
LEVEL_NOTE = ('delay plans perturb task start times only (no preemption inside a task); the serial run is the '
              'reference; rule checks are assumed deterministic for a fixed PYTHONHASHSEED')
RULE = ('file sets of 3-10 Fortran files (subroutine files with seeded rule violations, module files, files with '
        'syntax errors, rule-crashing files, empty/comment-only files, one file with hundreds of violations, '
        'sub-directories, include/exclude patterns) linted with all 15 rules of lint_rules; 1 serial + |{2,4,8}| x '
        'plans parallel runs per case. Non-trivial = serial run reported violations, every planned run finished and '
        'at least two distinct completion orders were observed among the multi-worker runs; distinct = hash of '
        'file contents and patterns.')
CASES = {'quick': 32, 'thorough': 320}
MIN_NONTRIVIAL = {'quick': 12, 'thorough': 160}
ANCHORS = []
REQUIRED_COUNTERS = {'trace_task_pairs': 50, 'parallel_runs_compared': 10}
ASSUMPTIONS = ['the serial (max_workers=1) run is the reference result',
               'the hook trace (begin/end per queued task) is complete: events are appended with O_APPEND writes',
               'schedules are explored by injected start delays, not exhaustively']
BUDGET_S = {'quick': 900, 'thorough': 3600}
CASE_TIMEOUT_S = 2400
WATCHDOG_S = {'quick': 3600, 'thorough': 9000}
MAX_INCONCLUSIVE_FRAC = 0.2    # job timeouts on a loaded machine are environmental
WORKER_COUNTS = (2, 4, 8)
PLANS = {'quick': {2: ['zero', 'reverse', 'random'], 4: ['reverse', 'single', 'random'],
                   8: ['zero', 'single', 'random']},
         'thorough': {w: ['zero', 'reverse', 'forward', 'single', 'single', 'random', 'random', 'random']
                      for w in (2, 4, 8)}}
MAX_MS = 120


# --------------------------------------------------------------------------
# workload generator
# --------------------------------------------------------------------------

F77 = ['.gt.', '.lt.', '.ge.', '.le.', '.eq.', '.ne.']
F90 = ['>', '<', '>=', '<=', '==', '/=']


def _stmt(rng, f77, kinded, banned, upper=False):
    lit = (lambda v: f'{v}_jprb') if kinded else (lambda v: f'{v}')
    op = rng.choice(F77) if f77 else rng.choice(F90)
    if upper:
        op = op.upper()
    k = rng.randrange(8)
    v = f'{rng.randrange(1, 90)}.{rng.randrange(10)}'
    if k == 0:
        return [f'  x(i) = x(i) + {lit(v)}']
    if k == 1:
        return [f'  if (x(i) {op} {lit(v)}) y = y + x(i)']
    if k == 2:
        op2 = rng.choice(F77) if f77 else rng.choice(F90)
        return [f'  if (n {op} {rng.randrange(9)} .and. y {op2} {lit(v)}) then', f'    y = {lit(v)}', '  end if']
    if k == 3 and banned:
        return [rng.choice(['  print *, y', '  return', "  stop 'bad'"])]
    if k == 4:
        return [f'  do i = 1, n', f'    x(i) = x(i) * {lit(v)}', '  end do']
    if k == 5:
        return [f'  y = max(y, {lit(v)})  ! comment {rng.randrange(1000)}']
    if k == 6:
        return [f'  call helper_{rng.randrange(5)}(n, x)']
    return [f'  y = y - x(1) / {lit(v)}']


def gen_routine(rng, name, nstmts, implicit_none=True, f77=False, kinded=True, banned=False, upper=False,
                nargs=0, hook=False):
    extra = [f'a{j}' for j in range(nargs)]
    lines = [f'subroutine {name}(' + ', '.join(['n', 'x', 'y'] + extra) + ')']
    if kinded:
        lines.append('  use parkind1, only: jpim, jprb')
    if hook:
        lines.append('  use yomhook, only: lhook, dr_hook, jphook')
    if implicit_none:
        lines.append('  implicit none')
    ik, rk = ('(kind=jpim)', '(kind=jprb)') if kinded else ('', '')
    lines += [f'  integer{ik}, intent(in) :: n', f'  real{rk}, intent(inout) :: x(n)', f'  real{rk}, intent(inout) :: y']
    for a in extra:
        lines.append(f'  real{rk}, intent(in) :: {a}')
    lines.append(f'  integer{ik} :: i')
    if hook:
        lines += ['  real(kind=jphook) :: zhook_handle', f"  if (lhook) call dr_hook('{name.upper()}', 0, zhook_handle)"]
    for _ in range(nstmts):
        lines += _stmt(rng, f77 and rng.random() < 0.7, kinded and rng.random() < 0.8, banned, upper=upper)
    if hook:
        lines.append(f"  if (lhook) call dr_hook('{name.upper()}', 1, zhook_handle)")
    lines.append(f'end subroutine {name}')
    return lines


def gen_file(rng, kind, stem):
    """-> (text, expected_class) where expected_class in ok|error|empty"""
    tag = rng.randrange(10 ** 6)
    if kind == 'empty':
        return '', 'empty'
    if kind == 'comment_only':
        return f'! nothing here {tag}\n\n! really\n', 'empty'
    if kind == 'syntax_error':
        variant = rng.randrange(4)
        if variant == 0:
            return f'subroutine {stem}(n\n  this is not fortran ((( {tag}\nend subroutine\n', 'error'
        if variant == 1:
            body = gen_routine(rng, stem, 4)
            body.insert(len(body) - 2, f'  y = (x(1) + {tag}')
            return '\n'.join(body) + '\n', 'error'
        if variant == 2:
            return f'module {stem}\n  integer :: k = {tag}\n  contains contains\nend\n', 'error'
        body = gen_routine(rng, stem, 3)
        return '\n'.join(body[:-1]) + f'\n  if (n > {tag % 7}) then\n', 'error'
    if kind == 'rule_crash':
        # upper-case old-style operator: Fortran90OperatorsRule.check_subroutine raises IndexError
        body = gen_routine(rng, stem, 3, f77=False)
        body.insert(len(body) - 1, f'  if (n .GT. {tag % 50}) y = 0.0_jprb')
        return '\n'.join(body) + '\n', 'error'
    if kind == 'module':
        name = stem if rng.random() < 0.5 else stem + '_mod'
        lines = [f'module {name}', '  use parkind1, only: jpim, jprb']
        if rng.random() < 0.7:
            lines.append('  implicit none')
        lines.append(f'  integer(kind=jpim) :: counter_{tag % 100} = {tag % 13}')
        lines.append(f'  real(kind=jprb), parameter :: zc = {tag % 77}.5_jprb')
        lines.append('contains')
        for j in range(rng.randrange(1, 4)):
            lines += ['  ' + ln for ln in gen_routine(rng, f'{stem}_r{j}', rng.randrange(2, 8),
                                                      implicit_none=rng.random() < 0.5, f77=rng.random() < 0.6,
                                                      kinded=rng.random() < 0.7, banned=rng.random() < 0.4)]
        lines.append(f'end module {name}')
        return '\n'.join(lines) + '\n', 'ok'
    if kind == 'many':
        lines = gen_routine(rng, stem, rng.randrange(45, 80), implicit_none=False, f77=True, kinded=False,
                            banned=True, nargs=rng.choice([0, 55]))
        return '\n'.join(lines) + '\n', 'ok'
    if kind == 'clean':
        lines = gen_routine(rng, stem, rng.randrange(2, 8), hook=True)
        return '\n'.join(lines) + '\n', 'ok'
    # 'routine': one or two free subroutines with a random mix of violations
    lines = []
    for j in range(rng.choice([1, 1, 2])):
        lines += gen_routine(rng, stem if j == 0 else f'{stem}_b', rng.randrange(3, 14),
                             implicit_none=rng.random() < 0.6, f77=rng.random() < 0.6, kinded=rng.random() < 0.6,
                             banned=rng.random() < 0.5, hook=rng.random() < 0.3)
        lines.append('')
    return '\n'.join(lines) + '\n', 'ok'


def gen_case(rng, idx):
    nfiles = rng.choice([3, 4, 4, 5, 5, 6, 7, 8])
    slice_ = idx % 8
    kinds = []
    if slice_ == 0:
        # all files are errors or empty (the probe-log scenario)
        kinds = [rng.choice(['syntax_error', 'rule_crash', 'empty', 'syntax_error']) for _ in range(nfiles)]
        if not any(k != 'empty' for k in kinds):
            kinds[0] = 'syntax_error'
    else:
        pool = ['routine'] * 5 + ['module'] * 2 + ['clean', 'syntax_error', 'rule_crash', 'empty', 'comment_only']
        kinds = [rng.choice(pool) for _ in range(nfiles)]
        if slice_ in (1, 2) and 'many' not in kinds:
            kinds[rng.randrange(nfiles)] = 'many'
        if 'routine' not in kinds and 'many' not in kinds and 'module' not in kinds:
            kinds[0] = 'routine'
    files = {}
    use_subdir = rng.random() < 0.5
    for j, kind in enumerate(kinds):
        stem = f'f{j}_{kind[:3]}{rng.randrange(1000)}'
        sub = 'sub/' if use_subdir and rng.random() < 0.4 else ''
        ext = rng.choice(['.F90', '.F90', '.f90'])
        text, cls = gen_file(rng, kind, stem)
        files[f'{sub}{stem}{ext}'] = {'text': text, 'kind': kind, 'class': cls}
    include = ['*.F90', '*.f90']
    exclude = []
    features = set()
    if rng.random() < 0.3:
        # a non-selected file and an excluded file
        files['notes.txt'] = {'text': 'not fortran\n', 'kind': 'other', 'class': 'unselected'}
        text, _ = gen_file(rng, 'routine', 'skipme')
        files['skipme_x.F90'] = {'text': text, 'kind': 'routine', 'class': 'excluded'}
        exclude = ['skipme_*']
        features.add('exclude_pattern')
    overlap = (idx % 16 == 5)
    if overlap and use_subdir and any(n.startswith('sub/') for n in files):
        include = include + ['sub/*.F90']
        features.add('overlapping_include')
    features.update('kind:' + k for k in kinds)
    return {'files': files, 'include': include, 'exclude': exclude, 'features': features,
            'lazy_outputs': idx % 6 == 3, 'log_file_handler': idx % 16 == 9}


def expected_selection(src, include, exclude):
    """Ground truth of 'selected files' (independent re-evaluation of the patterns), as a Counter."""
    excluded = set()
    for e in exclude:
        excluded.update(src.rglob(e))
    sel = Counter()
    for inc in include:
        for f in src.rglob(inc):
            if f not in excluded and f.is_file():
                sel[str(f)] += 1
    return sel


# --------------------------------------------------------------------------
# parsing of handler outputs
# --------------------------------------------------------------------------

def parse_junit(xml_string):
    """-> Counter of suites, {file: {rule: multiset(messages)}} (first suite wins; duplicates counted)"""
    suites = Counter()
    per_file = {}
    if not xml_string.strip():
        return suites, per_file
    root = ET.fromstring(xml_string)
    for ts in root.iter('testsuite'):
        name = ts.get('name')
        suites[name] += 1
        d = per_file.setdefault(name, {})
        for tc in ts.iter('testcase'):
            msgs = [f.get('message') for f in tc.iter('failure')]
            d.setdefault(tc.get('name'), []).extend(msgs)
    return suites, {f: {r: parlab.multiset(m) for r, m in d.items()} for f, d in per_file.items()}


def parse_yaml(text):
    import yaml
    if not text.strip():
        return {}
    data = yaml.safe_load(text) or {}
    out = {}
    for fname, rep in data.items():
        rules = []
        for r in rep.get('rules', []):
            if isinstance(r, dict):
                for k, v in r.items():
                    rules.append((k, parlab.multiset(v or [])))
            else:
                rules.append((r, None))
        out[fname] = {'rules': sorted(rules, key=str), 'filehash': rep.get('filehash')}
    return out


def group_messages(msgs, relnames):
    """group default-handler messages per file: 'Rule: <relname>...' """
    names = sorted(relnames, key=len, reverse=True)
    out = {}
    for m in msgs:
        if not isinstance(m, str):
            m = str(m)
        mm = re.match(r'^(\[[^\]]*\] )?\w+: ', m)
        f = ''
        if mm:
            rest = m[mm.end():]
            for n in names:
                if rest.startswith(n):
                    f = n
                    break
        out.setdefault(f, []).append(m)
    return {f: parlab.multiset(v) for f, v in out.items()}


def load_outputs(out, relnames):
    out = Path(out)
    o = {}
    j = parlab.read_jsonl(out / 'junit.jsonl')
    o['junit_writes'] = len(j)
    o['junit_suites'], o['junit'] = parse_junit(j[0] if j else '')
    y = parlab.read_jsonl(out / 'yaml.jsonl')
    o['yaml'] = parse_yaml('\n'.join(y))
    y = parlab.read_jsonl(out / 'yamlfh.jsonl')
    o['yamlfh'] = parse_yaml('\n'.join(y))
    o['deferred'] = group_messages(parlab.read_jsonl(out / 'deferred.jsonl'), relnames)
    for chan, fname in (('logged', 'log.txt'), ('logged2', 'log2.txt')):
        p = out / fname
        lines = p.read_text(errors='replace').splitlines() if p.exists() else []
        o[chan] = group_messages([ln for ln in lines if ln.strip()], relnames)
    for name in ('lazy_junit.xml', 'lazy_violations.yml'):
        p = out / name
        o[name] = p.read_text(errors='replace') if p.exists() else None
    return o


def diff_per_file(ref, got):
    """-> list of (file, kind) differences between two {file: value} maps"""
    d = []
    for f in sorted(set(ref) | set(got)):
        if f not in got:
            d.append((f, 'missing'))
        elif f not in ref:
            d.append((f, 'extra'))
        elif ref[f] != got[f]:
            d.append((f, 'differs'))
    return d


# --------------------------------------------------------------------------
# the case
# --------------------------------------------------------------------------

def run_case(idx, rng, tier, ctx):
    case = gen_case(rng, idx)
    wd = ctx['scratch'] / f'c{idx}'
    shutil.rmtree(wd, ignore_errors=True)
    src = wd / 'src'
    for name, f in case['files'].items():
        p = src / name
        p.parent.mkdir(parents=True, exist_ok=True)
        p.write_text(f['text'])
    try:
        return _run_case(idx, rng, tier, case, wd, src)
    finally:
        import os
        if not os.environ.get('VERIF_KEEP'):
            shutil.rmtree(wd, ignore_errors=True)


def _run_case(idx, rng, tier, case, wd, src):
    sel = expected_selection(src, case['include'], case['exclude'])
    selected = sorted(sel)
    relnames = [str(Path(f).relative_to(src)) for f in selected]
    keys = [repr(Path(f)) for f in selected]          # submission order == sorted order (find_paths sorts)
    res = {'sig': sighash({n: f['text'] for n, f in case['files'].items()} | {'inc': case['include']}),
           'nontrivial': False, 'violations': [], 'inconclusive': None, 'features': sorted(case['features']),
           'counters': Counter()}
    cnt = res['counters']
    viol = res['violations']
    witness_files = {n: (f['text'] if len(f['text']) < 1500 else f['text'][:1500] + '...[cut]')
                     for n, f in case['files'].items()}

    def add(key, msg, **extra):
        if any(v['key'] == key for v in viol):
            return
        w = {'files': witness_files, 'include': case['include'], 'exclude': case['exclude']}
        w.update(extra)
        viol.append({'key': key, 'msg': msg, 'witness': w})

    # ---- plan enumeration
    runs = [{'name': 'serial', 'workers': 1, 'out': str(wd / 'r_serial'), 'trace': None, 'jitter': None,
             'lazy_outputs': case['lazy_outputs']}]
    plan_of = {}
    for w in WORKER_COUNTS:
        kinds = [k if k != 'single' else f'single:{rng.randrange(len(keys))}' for k in PLANS[tier][w]]
        for pi, plan in enumerate(parlab.enumerate_plans(keys, 'check_and_fix_file', MAX_MS, kinds, rng)):
            name = f'w{w}_p{pi}_{plan["kind"].replace(":", "")}'
            plan_of[name] = dict(plan, workers=w)
            runs.append({'name': name, 'workers': w, 'out': str(wd / f'r_{name}'),
                         'trace': str(wd / f'r_{name}' / 'trace.jsonl'), 'jitter': plan['jitter'],
                         'lazy_outputs': case['lazy_outputs']})
    # spare random plans, only evaluated when too few completion orders were seen
    spare = []
    for pi, plan in enumerate(parlab.enumerate_plans(keys, 'check_and_fix_file', MAX_MS, ['random'] * 6, rng)):
        name = f'w4_x{pi}_random'
        plan_of[name] = dict(plan, workers=4)
        spare.append({'name': name, 'workers': 4, 'out': str(wd / f'r_{name}'),
                      'trace': str(wd / f'r_{name}' / 'trace.jsonl'), 'jitter': plan['jitter'],
                      'lazy_outputs': False})
    if case['log_file_handler']:
        res['features'].append('second_log_handler')
    import os
    if os.environ.get('VERIF_DEV_RUNS'):
        runs = runs[:1 + int(os.environ['VERIF_DEV_RUNS'])]
    job = {'kind': 'lint', 'log_file_handler': case['log_file_handler'], 'basedir': str(src), 'include': case['include'], 'exclude': case['exclude'],
           'runs': runs}
    for r in runs:
        Path(r['out']).mkdir(parents=True, exist_ok=True)
    try:
        results = parlab.run_job(job, wd / 'job0', timeout=1200)
    except (parlab.JobTimeout, parlab.JobCrashed) as e:
        res['inconclusive'] = f'lint job: {e}'
        return res
    byname = {r['run']: r for r in results}

    # ---- serial reference
    sref = byname.get('serial')
    if sref is None:
        res['inconclusive'] = 'no serial result'
        return res
    sout = load_outputs(runs[0]['out'], relnames)
    cnt['serial_runs'] += 1
    if sref['status'] != 'ok':
        res['features'].append('serial_lint_files_raised:' + sref.get('exc_type', '?'))
    else:
        # exactly-once in the serial run, decided on the per-file report (no queue, hence no trace)
        for f in selected:
            n = sout['junit_suites'].get(f, 0)
            if n != sel[f]:
                add('once:serial-report-count', f'serial run produced {n} reports for a file selected {sel[f]}x',
                    file=f)
            elif sel[f] > 1:
                add('select:file-matched-by-two-patterns-checked-twice',
                    f'{Path(f).name} is matched by {sel[f]} include patterns and was checked/reported {n} times',
                    file=f)
        for f in sout['junit_suites']:
            if f not in sel:
                add('once:unselected-file-reported', f'serial run reported unselected file {f}', file=f)
    nviol_serial = sum(c for d in sout['deferred'].values() for _, c in d)
    cnt['serial_messages'] += nviol_serial

    # ---- parallel runs
    orders = set()

    def evaluate(run):
        name = run['name']
        r = byname.get(name)
        if r is None:
            return 'missing result'
        plan = plan_of[name]
        info = {'run': name, 'workers': plan['workers'], 'plan': plan['kind'], 'jitter': plan['jitter'],
                'planned_delays_ms': dict(zip(relnames, plan['delays']))}
        cnt['parallel_runs'] += 1
        if r['status'] != sref['status'] or r.get('exc_type') != sref.get('exc_type'):
            add(f"parallel:lint_files-outcome-differs:{r.get('exc_type') or 'ok'}-vs-serial-{sref.get('exc_type') or 'ok'}",
                f"{name}: status {r['status']} {r.get('exc_type')} {r.get('exc_msg')} vs serial {sref['status']} "
                f"{sref.get('exc_type')}", **info)
            return None
        # exactly-once on the hook trace
        ev = parlab.read_trace(run['trace'])
        cnt['trace_events'] += len(ev)
        pairs = parlab.pair_events(ev)
        for e in ev:
            if e['fn'] != 'check_and_fix_file':
                add('once:unexpected-task-function', f"{name}: queued task {e['fn']}", **info)
        if r['status'] == 'ok':
            for f, k in zip(selected, keys):
                p = pairs.get(k, {'begin': [], 'end': []})
                nb, ne = len(p['begin']), len(p['end'])
                cnt['trace_task_pairs'] += min(nb, ne)
                if nb == 0:
                    add('once:file-never-checked', f'{name}: no task for {f}', trace=ev[:40], **info)
                elif nb != sel[f]:
                    add('once:file-checked-more-than-once', f'{name}: {nb} tasks for {f}', trace=ev[:40], **info)
                elif ne != nb:
                    add('once:task-began-but-never-ended', f'{name}: {nb} begin / {ne} end for {f}', **info)
            for k in pairs:
                if k not in keys:
                    add('once:unselected-file-checked', f'{name}: task for unselected {k}', **info)
        order = tuple(parlab.order_of(ev, 'end'))
        if plan['workers'] > 1 and order:
            orders.add(order)
        if parlab.max_parallelism(ev) >= 2:
            cnt['max_parallelism_ge2_runs'] += 1
        if r['status'] != 'ok':
            cnt['both_raised_runs'] += 1
            return None
        # report equality
        pout = load_outputs(run['out'], relnames)
        cnt['parallel_runs_compared'] += 1
        if r['checked'] != sref['checked']:
            add('count:checked_count-differs', f"{name}: checked_count {r['checked']} vs serial {sref['checked']}",
                **info)
        for f in selected:
            n = pout['junit_suites'].get(f, 0)
            if n == 0:
                add('report:file-missing-in-parallel-junit', f'{name}: no report for {f}', **info)
            elif n != sel[f]:
                add('report:file-duplicated-in-parallel-junit', f'{name}: {n} reports for {f}', **info)
        for f in pout['junit_suites']:
            if f not in sel:
                add('report:unselected-file-in-parallel-junit', f'{name}: report for {f}', **info)
        if case['log_file_handler']:
            dup = [f for f in sout['logged2'] if f in pout['logged2'] and sout['logged2'][f] != pout['logged2'][f]
                   and [(m, 2 * c) for m, c in sout['logged2'][f]] == pout['logged2'][f]]
            if dup:
                add('log:lines-duplicated-in-parallel-with-second-log-handler',
                    f'{name}: every default-handler line of {len(dup)} files appears twice in the log file of a '
                    'second logging handler (serial: once)', **info)
                pout['logged2'] = sout['logged2']
        for chan in ('junit', 'yaml', 'yamlfh', 'deferred', 'logged', 'logged2'):
            d = diff_per_file(sout[chan], pout[chan])
            cnt[f'compared_{chan}_files'] += len(sout[chan])
            if d:
                f, kind = d[0]
                add(f'report:{chan}-{kind}', f'{name}: {chan} output for {f!r} {kind} (serial vs parallel); '
                    f'{len(d)} files affected', serial=sout[chan].get(f), parallel=pout[chan].get(f), **info)
        if pout['junit_writes'] != 1:
            add('report:junit-written-not-once', f"{name}: junit target called {pout['junit_writes']} times", **info)
        if case['lazy_outputs']:
            cnt['lazy_runs_compared'] += 1
            for fname, parse, label in (('lazy_violations.yml', parse_yaml, 'violations'),
                                        ('lazy_junit.xml', lambda t: parse_junit(t)[1], 'junit')):
                st, pt = sout[fname], pout[fname]
                if st is None:
                    continue
                if pt is None:
                    add(f'lazytextfile:{label}-file-not-written-in-parallel', f'{name}: {fname} missing', **info)
                elif not pt.strip() and st.strip():
                    add(f'lazytextfile:{label}-file-empty-in-parallel',
                        f'{name}: {fname} has 0 bytes in the parallel run, {len(st)} bytes in the serial run '
                        '(handler outputs passed to the robust targets agree)', serial_text=st[:600], **info)
                else:
                    try:
                        same = parse(st) == parse(pt)
                    except Exception as e:  # pylint: disable=broad-except
                        add(f'lazytextfile:{label}-file-garbled-in-parallel', f'{name}: {fname}: {e}',
                            parallel_text=pt[:600], **info)
                        continue
                    if not same:
                        add(f'lazytextfile:{label}-file-differs-in-parallel', f'{name}: {fname} differs',
                            serial_text=st[:600], parallel_text=pt[:600], **info)
        return None

    problems = []
    for run in runs[1:]:
        p = evaluate(run)
        if p:
            problems.append(p)
    # adaptive: more plans when the schedules did not vary
    if len(orders) < 2 and len(selected) >= 2 and not viol:
        job2 = dict(job, runs=spare)
        for r in spare:
            Path(r['out']).mkdir(parents=True, exist_ok=True)
        try:
            for r in parlab.run_job(job2, wd / 'job1', timeout=900):
                byname[r['run']] = r
            for run in spare:
                p = evaluate(run)
                if p:
                    problems.append(p)
            cnt['adaptive_extra_runs'] += len(spare)
        except (parlab.JobTimeout, parlab.JobCrashed) as e:
            problems.append(f'extra lint job: {e}')

    cnt['distinct_completion_orders'] += len(orders)
    if len(orders) >= 2:
        cnt['cases_with_multiple_orders'] += 1
    res['features'].append(f'orders:{min(len(orders), 6)}')
    if problems:
        res['inconclusive'] = '; '.join(problems)[:500]
    elif len(orders) < 2 and not viol:
        res['inconclusive'] = f'only {len(orders)} completion order(s) observed over {cnt["parallel_runs"]} multi-worker runs'
    res['nontrivial'] = (not res['inconclusive'] and sref['status'] == 'ok' and nviol_serial > 0
                         and len(orders) >= 2)
    res['sample'] = {'files': {n: f['kind'] for n, f in case['files'].items()}, 'include': case['include'],
                     'serial_messages': nviol_serial, 'serial_checked': sref.get('checked'),
                     'parallel_runs': cnt['parallel_runs'], 'distinct_completion_orders': len(orders),
                     'example_orders': [[Path(k[11:-2]).name for k in o] for o in list(orders)[:3]]}
    res['sample']['loki'] = parlab.LAST_LOKI_FILE
    res['counters'] = dict(cnt)
    return res


def finalize(agg, tier):
    c = agg['counters']
    n = max(1, agg['evaluations'])
    if c.get('cases_with_multiple_orders', 0) < 0.8 * (n - len(agg['inconclusive'])):
        agg.setdefault('extra_inconclusive', []).append(
            f"only {c.get('cases_with_multiple_orders', 0)} of {n} cases observed more than one completion order")
    if c.get('max_parallelism_ge2_runs', 0) < 0.5 * c.get('parallel_runs', 0):
        agg.setdefault('extra_inconclusive', []).append(
            f"only {c.get('max_parallelism_ge2_runs', 0)} of {c.get('parallel_runs', 0)} multi-worker runs had two "
            'tasks in flight at the same time')
    agg['extra_coverage'] = {
        'schedules': {'worker_counts': [1] + list(WORKER_COUNTS), 'plans_per_worker_count': {str(w): p for w, p in PLANS[tier].items()},
                      'max_start_delay_ms': MAX_MS,
                      'distinct_completion_orders_observed': c.get('distinct_completion_orders', 0),
                      'cases_with_multiple_orders': c.get('cases_with_multiple_orders', 0),
                      'parallel_runs': c.get('parallel_runs', 0),
                      'runs_with_two_or_more_tasks_in_flight': c.get('max_parallelism_ge2_runs', 0)}}
